//! The interposition layer really sits between the code under test and the C library.
use std::time::{Duration, SystemTime};

#[test]
fn wall_clock_is_shifted_and_monotonic_clock_is_not() {
    bcverif::shim::init();
    let t0 = SystemTime::now();
    let i0 = std::time::Instant::now();
    bcverif::shim::set_clock_skew(1_000_000);
    let t1 = SystemTime::now();
    let i1 = std::time::Instant::now();
    bcverif::shim::set_clock_skew(-5);
    let t2 = SystemTime::now();
    bcverif::shim::set_clock_skew(0);
    let d = t1.duration_since(t0).unwrap();
    assert!(d >= Duration::from_secs(999_999) && d <= Duration::from_secs(1_000_010), "{d:?}");
    assert!(t0.duration_since(t2).unwrap() >= Duration::from_secs(4));
    assert!(i1.duration_since(i0) < Duration::from_secs(5));
}

#[test]
fn injected_accept_failures_reach_std_net() {
    bcverif::shim::init();
    let l = std::net::TcpListener::bind("127.0.0.1:0").unwrap();
    let a = l.local_addr().unwrap();
    let _c = std::net::TcpStream::connect(a).unwrap();
    bcverif::shim::fail_next_accepts(1, libc::EMFILE, None);
    let e = l.accept().unwrap_err();
    assert_eq!(e.raw_os_error(), Some(libc::EMFILE));
    assert_eq!(bcverif::shim::accept_failures_left(), 0);
    // the connection stayed in the backlog
    assert!(l.accept().is_ok());
}

#[test]
fn calls_on_duplicated_descriptors_are_attributed_to_their_file() {
    use std::io::Write;
    bcverif::shim::init();
    let dir = std::env::temp_dir().join(format!("shimtest-{}", std::process::id()));
    let _ = std::fs::remove_dir_all(&dir);
    std::fs::create_dir_all(&dir).unwrap();
    bcverif::shim::start(&dir, false);
    let mut f = std::fs::OpenOptions::new().create_new(true).append(true).open(dir.join("1.bitcask.data")).unwrap();
    f.write_all(b"abc").unwrap();
    let dup = f.try_clone().unwrap();
    dup.sync_all().unwrap();
    (&dup).write_all(b"de").unwrap();
    drop(dup);
    let calls = bcverif::shim::stop();
    let kinds: Vec<(&str, String)> = calls.iter().map(|c| (c.kind, c.file.clone())).collect();
    assert!(kinds.contains(&("fsync", "1.bitcask.data".to_string())), "{kinds:?}");
    assert_eq!(calls.iter().filter(|c| c.kind == "write" && c.file == "1.bitcask.data").count(), 2, "{kinds:?}");
    let _ = std::fs::remove_dir_all(&dir);
}
