//! In-process interposition of the file-system calls Rust's std issues (`open64`, `write`,
//! `fsync`, `unlink`, ...).  The symbols are defined in this crate, so the statically linked
//! std of every harness binary binds to them instead of libc; they forward to libc through
//! `dlsym(RTLD_NEXT)`.
//!
//! For paths below the watched directory the shim
//!   * records every call in order (kind, file, flags, byte count, the bytes written, result),
//!   * can make the n-th mutating call fail with a chosen errno without performing it,
//!   * can block the calling thread at the n-th mutating call until released.
//! Calls on anything else (sockets, stdout, scratch copies) pass through untouched.

use std::{
    collections::HashMap,
    ffi::CStr,
    sync::{Condvar, Mutex},
};

use libc::{c_char, c_int, c_void, mode_t, off_t, size_t, ssize_t};

#[derive(Debug, Clone)]
pub struct Call {
    pub seq: u64,
    pub tid: u64,
    /// create | open_ro | open_other | write | fsync | unlink | truncate | rename | pwrite | close
    pub kind: &'static str,
    /// file name relative to the watched directory
    pub file: String,
    pub flags: i32,
    pub n: u64,
    pub data: Vec<u8>,
    pub res: i64,
    pub errno: i32,
    /// true when the shim failed the call on purpose (nothing was done)
    pub injected: bool,
}

impl Call {
    pub fn mutating(&self) -> bool {
        !matches!(self.kind, "open_ro" | "close" | "mark")
    }
}

#[derive(Default)]
struct State {
    watch: Option<Vec<u8>>,
    fds: HashMap<c_int, String>,
    calls: Vec<Call>,
    seq: u64,
    /// number of mutating calls seen since `start`
    mutating_seen: u64,
    /// fail the mutating call with this 0-based index
    fail_at: Option<(u64, i32)>,
    /// pause the thread issuing the mutating call with this 0-based index
    pause_at: Option<u64>,
    paused: bool,
    release: bool,
    keep_data: bool,
    /// turn fsync into a recorded no-op (keeps big runs fast; the order is what matters)
    skip_fsync: bool,
    /// fsync calls seen since `start`; (first failing fsync, how many in a row, errno)
    fsync_seen: u64,
    fsync_burst: Option<(u64, u32, i32)>,
}

/// Optional callback invoked by the calling thread right BEFORE a mutating call on a watched file is
/// performed (kind, file name): a scheduler can park the thread there.  It runs without the shim lock.
static SYSCALL_GATE: Mutex<Option<fn(&'static str, &str)>> = Mutex::new(None);

pub fn set_syscall_gate(f: Option<fn(&'static str, &str)>) {
    *SYSCALL_GATE.lock().unwrap_or_else(|e| e.into_inner()) = f;
}

fn call_gate(kind: &'static str, file: &str) {
    let f = *SYSCALL_GATE.lock().unwrap_or_else(|e| e.into_inner());
    if let Some(f) = f {
        f(kind, file);
    }
}

static STATE: Mutex<Option<State>> = Mutex::new(None);
static CV: Condvar = Condvar::new();

fn with<R>(f: impl FnOnce(&mut State) -> R) -> R {
    let mut g = STATE.lock().unwrap_or_else(|e| e.into_inner());
    if g.is_none() {
        *g = Some(State::default());
    }
    f(g.as_mut().unwrap())
}

fn tid() -> u64 {
    unsafe { libc::syscall(libc::SYS_gettid) as u64 }
}

/// Start watching `dir` (records are cleared).
pub fn start(dir: &std::path::Path, keep_data: bool) {
    let mut p = dir.to_string_lossy().as_bytes().to_vec();
    if !p.ends_with(b"/") {
        p.push(b'/');
    }
    with(|s| {
        *s = State::default();
        s.watch = Some(p);
        s.keep_data = keep_data;
    });
}

pub fn stop() -> Vec<Call> {
    with(|s| {
        s.watch = None;
        s.fail_at = None;
        s.pause_at = None;
        std::mem::take(&mut s.calls)
    })
}

/// A marker of the driver in the ordered record of calls (not a call: e.g. "the store object has been dropped").
pub fn mark(label: &str) {
    if with(|s| s.watch.is_some()) {
        record("mark", label.to_string(), 0, 0, vec![], 0, 0, false);
    }
}

pub fn take_calls() -> Vec<Call> {
    with(|s| std::mem::take(&mut s.calls))
}

pub fn mutating_seen() -> u64 {
    with(|s| s.mutating_seen)
}

/// The fsync with 0-based index `first` (counted over the watched directory since `start`) and the `count - 1`
/// fsync calls after it fail: a device that keeps refusing to sync, however often the call is repeated.
pub fn fail_fsync_burst(first: u64, count: u32, errno: i32) {
    with(|s| s.fsync_burst = Some((first, count, errno)));
}

pub fn set_skip_fsync(b: bool) {
    with(|s| s.skip_fsync = b);
}

/// Fail the mutating call with 0-based index `idx` (counted from `start`) with `errno`.
/// A NEGATIVE errno asks for the way a full device usually fails a write: the call with index `idx` is performed
/// SHORT (half of its bytes, when it is a write of at least two bytes) and the call after it fails with `-errno`.
pub fn fail_at(idx: u64, errno: i32) {
    with(|s| s.fail_at = Some((idx, errno)));
}

/// Block the thread that issues the mutating call with index `idx` until `release()`.
pub fn pause_at(idx: u64) {
    with(|s| {
        s.pause_at = Some(idx);
        s.paused = false;
        s.release = false;
    });
}

/// Wait until some thread is blocked at the pause point (false on timeout).
pub fn wait_paused(timeout: std::time::Duration) -> bool {
    let g = STATE.lock().unwrap_or_else(|e| e.into_inner());
    let (g, r) = CV
        .wait_timeout_while(g, timeout, |s| !s.as_ref().map(|s| s.paused).unwrap_or(false))
        .unwrap_or_else(|e| e.into_inner());
    drop(g);
    !r.timed_out()
}

pub fn release() {
    with(|s| {
        s.release = true;
        s.pause_at = None;
    });
    CV.notify_all();
}

enum Gate {
    Go,
    Fail(i32),
    /// a SHORT write: half of the bytes are written, then the next mutating call (the retry of the rest) fails
    Short(i32),
}

/// Bookkeeping before a mutating call: index, fault, pause.
fn gate() -> Gate {
    let mut g = STATE.lock().unwrap_or_else(|e| e.into_inner());
    let s = g.as_mut().unwrap();
    let idx = s.mutating_seen;
    s.mutating_seen += 1;
    if s.pause_at == Some(idx) {
        s.paused = true;
        CV.notify_all();
        let mut g2 = CV
            .wait_while(g, |s| !s.as_ref().unwrap().release)
            .unwrap_or_else(|e| e.into_inner());
        let s = g2.as_mut().unwrap();
        s.paused = false;
        if let Some((f, e)) = s.fail_at {
            if f == idx {
                s.fail_at = None;
                if e < 0 {
                    s.fail_at = Some((idx + 1, -e));
                    return Gate::Short(-e);
                }
                return Gate::Fail(e);
            }
        }
        return Gate::Go;
    }
    if let Some((f, e)) = s.fail_at {
        if f == idx {
            s.fail_at = None;
            if e < 0 {
                // the call after this one - the retry of what was not written - fails
                s.fail_at = Some((idx + 1, -e));
                return Gate::Short(-e);
            }
            return Gate::Fail(e);
        }
    }
    Gate::Go
}

fn record(kind: &'static str, file: String, flags: i32, n: u64, data: Vec<u8>, res: i64, errno: i32, injected: bool) {
    with(|s| {
        s.seq += 1;
        let seq = s.seq;
        s.calls.push(Call { seq, tid: tid(), kind, file, flags, n, data, res, errno, injected });
    });
}

unsafe fn set_errno(e: i32) {
    *libc::__errno_location() = e;
}
unsafe fn get_errno() -> i32 {
    *libc::__errno_location()
}

fn watched_path(p: *const c_char) -> Option<String> {
    if p.is_null() {
        return None;
    }
    let b = unsafe { CStr::from_ptr(p) }.to_bytes();
    // fast path without taking the lock when nothing is watched
    let g = STATE.lock().unwrap_or_else(|e| e.into_inner());
    let w = g.as_ref()?.watch.as_ref()?;
    if b.starts_with(w) {
        Some(String::from_utf8_lossy(&b[w.len()..]).to_string())
    } else {
        None
    }
}

fn watched_fd(fd: c_int) -> Option<String> {
    let watch = {
        let g = STATE.lock().unwrap_or_else(|e| e.into_inner());
        let s = g.as_ref()?;
        let w = s.watch.as_ref()?;
        if let Some(f) = s.fds.get(&fd) {
            return Some(f.clone());
        }
        w.clone()
    };
    // a descriptor the shim did not see being opened (duplicated with dup / fcntl, inherited, ...):
    // ask the kernel which file it is
    let link = format!("/proc/self/fd/{fd}\0");
    let mut buf = [0u8; 4096];
    let n = unsafe { libc::readlink(link.as_ptr() as *const c_char, buf.as_mut_ptr() as *mut c_char, buf.len()) };
    if n <= 0 {
        return None;
    }
    let mut t = &buf[..n as usize];
    if t.ends_with(b" (deleted)") {
        t = &t[..t.len() - 10];
    }
    if t.starts_with(&watch) {
        Some(String::from_utf8_lossy(&t[watch.len()..]).to_string())
    } else {
        None
    }
}

macro_rules! real {
    ($name:literal, $ty:ty) => {{
        static F: std::sync::atomic::AtomicUsize = std::sync::atomic::AtomicUsize::new(0);
        let mut p = F.load(std::sync::atomic::Ordering::Relaxed);
        if p == 0 {
            p = unsafe { libc::dlsym(libc::RTLD_NEXT, concat!($name, "\0").as_ptr() as *const c_char) } as usize;
            assert!(p != 0, concat!("dlsym ", $name));
            F.store(p, std::sync::atomic::Ordering::Relaxed);
        }
        unsafe { std::mem::transmute::<usize, $ty>(p) }
    }};
}

type OpenFn = unsafe extern "C" fn(*const c_char, c_int, mode_t) -> c_int;

unsafe fn do_open(real: OpenFn, path: *const c_char, flags: c_int, mode: mode_t) -> c_int {
    let Some(file) = watched_path(path) else {
        return real(path, flags, mode);
    };
    let acc = flags & libc::O_ACCMODE;
    let kind = if flags & libc::O_CREAT != 0 {
        "create"
    } else if acc == libc::O_RDONLY && flags & libc::O_TRUNC == 0 {
        "open_ro"
    } else {
        "open_other"
    };
    if kind != "open_ro" {
        call_gate(kind, &file);
        if let Gate::Fail(e) | Gate::Short(e) = gate() {
            with(|s| if matches!(s.fail_at, Some((_, x)) if x == e) { s.fail_at = None });
            record(kind, file, flags, 0, vec![], -1, e, true);
            set_errno(e);
            return -1;
        }
    }
    if kind == "open_ro" && file.ends_with(".bitcask.data") && inject_read_open_failure() {
        // a read path fault (out of descriptors): the open of a data file for reading fails
        let e = READ_OPEN_ERRNO.load(std::sync::atomic::Ordering::SeqCst);
        record(kind, file, flags, 0, vec![], -1, e, true);
        set_errno(e);
        return -1;
    }
    let fd = real(path, flags, mode);
    let e = if fd < 0 { get_errno() } else { 0 };
    if fd >= 0 {
        with(|s| {
            s.fds.insert(fd, file.clone());
        });
    }
    record(kind, file, flags, 0, vec![], fd as i64, e, false);
    if fd < 0 {
        set_errno(e);
    }
    fd
}

#[no_mangle]
pub unsafe extern "C" fn open64(path: *const c_char, flags: c_int, mode: mode_t) -> c_int {
    do_open(real!("open64", OpenFn), path, flags, mode)
}

#[no_mangle]
pub unsafe extern "C" fn open(path: *const c_char, flags: c_int, mode: mode_t) -> c_int {
    do_open(real!("open", OpenFn), path, flags, mode)
}

#[no_mangle]
pub unsafe extern "C" fn close(fd: c_int) -> c_int {
    let f = real!("close", unsafe extern "C" fn(c_int) -> c_int);
    let tracked = {
        let mut g = STATE.lock().unwrap_or_else(|e| e.into_inner());
        g.as_mut().and_then(|s| s.fds.remove(&fd))
    };
    let r = f(fd);
    if let Some(file) = tracked {
        let e = get_errno();
        record("close", file, 0, 0, vec![], r as i64, 0, false);
        set_errno(e);
    }
    r
}

#[no_mangle]
pub unsafe extern "C" fn write(fd: c_int, buf: *const c_void, n: size_t) -> ssize_t {
    let f = real!("write", unsafe extern "C" fn(c_int, *const c_void, size_t) -> ssize_t);
    let Some(file) = watched_fd(fd) else {
        return f(fd, buf, n);
    };
    let keep = with(|s| s.keep_data);
    let data = if keep { std::slice::from_raw_parts(buf as *const u8, n).to_vec() } else { vec![] };
    call_gate("write", &file);
    match gate() {
        Gate::Fail(e) => {
            record("write", file, 0, n as u64, data, -1, e, true);
            set_errno(e);
            return -1;
        }
        Gate::Short(e) => {
            if n < 2 {
                // nothing to halve: fails outright (the follow-up failure is disarmed)
                with(|s| s.fail_at = None);
                record("write", file, 0, n as u64, data, -1, e, true);
                set_errno(e);
                return -1;
            }
            let r = f(fd, buf, n / 2);
            let e2 = if r < 0 { get_errno() } else { 0 };
            record("write", file, 0, n as u64, data, r as i64, e2, true);
            if r < 0 {
                set_errno(e2);
            }
            return r;
        }
        Gate::Go => {}
    }
    let r = f(fd, buf, n);
    let e = if r < 0 { get_errno() } else { 0 };
    record("write", file, 0, n as u64, data, r as i64, e, false);
    if r < 0 {
        set_errno(e);
    }
    r
}

#[no_mangle]
pub unsafe extern "C" fn writev(fd: c_int, iov: *const libc::iovec, cnt: c_int) -> ssize_t {
    let f = real!("writev", unsafe extern "C" fn(c_int, *const libc::iovec, c_int) -> ssize_t);
    let Some(file) = watched_fd(fd) else {
        return f(fd, iov, cnt);
    };
    let mut data = vec![];
    for i in 0..cnt as usize {
        let v = &*iov.add(i);
        data.extend_from_slice(std::slice::from_raw_parts(v.iov_base as *const u8, v.iov_len));
    }
    if let Gate::Fail(e) = gate() {
        record("write", file, 1, data.len() as u64, data, -1, e, true);
        set_errno(e);
        return -1;
    }
    let r = f(fd, iov, cnt);
    let e = if r < 0 { get_errno() } else { 0 };
    record("write", file, 1, data.len() as u64, data, r as i64, e, false);
    if r < 0 {
        set_errno(e);
    }
    r
}

unsafe fn do_pwrite(
    f: unsafe extern "C" fn(c_int, *const c_void, size_t, off_t) -> ssize_t,
    fd: c_int,
    buf: *const c_void,
    n: size_t,
    off: off_t,
) -> ssize_t {
    let Some(file) = watched_fd(fd) else {
        return f(fd, buf, n, off);
    };
    if let Gate::Fail(e) = gate() {
        record("pwrite", file, 0, n as u64, vec![], -1, e, true);
        set_errno(e);
        return -1;
    }
    let r = f(fd, buf, n, off);
    let e = if r < 0 { get_errno() } else { 0 };
    record("pwrite", file, off as i32, n as u64, vec![], r as i64, e, false);
    if r < 0 {
        set_errno(e);
    }
    r
}

#[no_mangle]
pub unsafe extern "C" fn pwrite64(fd: c_int, buf: *const c_void, n: size_t, off: off_t) -> ssize_t {
    do_pwrite(real!("pwrite64", unsafe extern "C" fn(c_int, *const c_void, size_t, off_t) -> ssize_t), fd, buf, n, off)
}

#[no_mangle]
pub unsafe extern "C" fn pwrite(fd: c_int, buf: *const c_void, n: size_t, off: off_t) -> ssize_t {
    do_pwrite(real!("pwrite", unsafe extern "C" fn(c_int, *const c_void, size_t, off_t) -> ssize_t), fd, buf, n, off)
}

unsafe fn do_sync(name: &'static str, f: unsafe extern "C" fn(c_int) -> c_int, fd: c_int) -> c_int {
    let Some(file) = watched_fd(fd) else {
        return f(fd);
    };
    let _ = name;
    call_gate("fsync", &file);
    if let Gate::Fail(e) = gate() {
        record("fsync", file, 0, 0, vec![], -1, e, true);
        set_errno(e);
        return -1;
    }
    let burst = with(|s| {
        let idx = s.fsync_seen;
        s.fsync_seen += 1;
        match s.fsync_burst {
            Some((first, count, e)) if idx >= first && idx < first + count as u64 => Some(e),
            _ => None,
        }
    });
    if let Some(e) = burst {
        record("fsync", file, 0, 0, vec![], -1, e, true);
        set_errno(e);
        return -1;
    }
    let skip = with(|s| s.skip_fsync);
    let r = if skip { 0 } else { f(fd) };
    let e = if r < 0 { get_errno() } else { 0 };
    record("fsync", file, 0, 0, vec![], r as i64, e, false);
    if r < 0 {
        set_errno(e);
    }
    r
}

#[no_mangle]
pub unsafe extern "C" fn fsync(fd: c_int) -> c_int {
    do_sync("fsync", real!("fsync", unsafe extern "C" fn(c_int) -> c_int), fd)
}

#[no_mangle]
pub unsafe extern "C" fn fdatasync(fd: c_int) -> c_int {
    do_sync("fdatasync", real!("fdatasync", unsafe extern "C" fn(c_int) -> c_int), fd)
}

#[no_mangle]
pub unsafe extern "C" fn unlink(path: *const c_char) -> c_int {
    let f = real!("unlink", unsafe extern "C" fn(*const c_char) -> c_int);
    let Some(file) = watched_path(path) else {
        return f(path);
    };
    if let Gate::Fail(e) = gate() {
        record("unlink", file, 0, 0, vec![], -1, e, true);
        set_errno(e);
        return -1;
    }
    let r = f(path);
    let e = if r < 0 { get_errno() } else { 0 };
    record("unlink", file, 0, 0, vec![], r as i64, e, false);
    if r < 0 {
        set_errno(e);
    }
    r
}

#[no_mangle]
pub unsafe extern "C" fn unlinkat(dirfd: c_int, path: *const c_char, flags: c_int) -> c_int {
    let f = real!("unlinkat", unsafe extern "C" fn(c_int, *const c_char, c_int) -> c_int);
    let Some(file) = watched_path(path) else {
        return f(dirfd, path, flags);
    };
    if let Gate::Fail(e) = gate() {
        record("unlink", file, flags, 0, vec![], -1, e, true);
        set_errno(e);
        return -1;
    }
    let r = f(dirfd, path, flags);
    let e = if r < 0 { get_errno() } else { 0 };
    record("unlink", file, flags, 0, vec![], r as i64, e, false);
    if r < 0 {
        set_errno(e);
    }
    r
}

unsafe fn do_ftruncate(f: unsafe extern "C" fn(c_int, off_t) -> c_int, fd: c_int, len: off_t) -> c_int {
    let Some(file) = watched_fd(fd) else {
        return f(fd, len);
    };
    if let Gate::Fail(e) = gate() {
        record("truncate", file, 0, len as u64, vec![], -1, e, true);
        set_errno(e);
        return -1;
    }
    let r = f(fd, len);
    let e = if r < 0 { get_errno() } else { 0 };
    record("truncate", file, 0, len as u64, vec![], r as i64, e, false);
    if r < 0 {
        set_errno(e);
    }
    r
}

#[no_mangle]
pub unsafe extern "C" fn ftruncate64(fd: c_int, len: off_t) -> c_int {
    do_ftruncate(real!("ftruncate64", unsafe extern "C" fn(c_int, off_t) -> c_int), fd, len)
}

#[no_mangle]
pub unsafe extern "C" fn ftruncate(fd: c_int, len: off_t) -> c_int {
    do_ftruncate(real!("ftruncate", unsafe extern "C" fn(c_int, off_t) -> c_int), fd, len)
}

#[no_mangle]
pub unsafe extern "C" fn rename(from: *const c_char, to: *const c_char) -> c_int {
    let f = real!("rename", unsafe extern "C" fn(*const c_char, *const c_char) -> c_int);
    let a = watched_path(from);
    let b = watched_path(to);
    if a.is_none() && b.is_none() {
        return f(from, to);
    }
    let file = format!("{}->{}", a.unwrap_or_default(), b.unwrap_or_default());
    if let Gate::Fail(e) = gate() {
        record("rename", file, 0, 0, vec![], -1, e, true);
        set_errno(e);
        return -1;
    }
    let r = f(from, to);
    let e = if r < 0 { get_errno() } else { 0 };
    record("rename", file, 0, 0, vec![], r as i64, e, false);
    if r < 0 {
        set_errno(e);
    }
    r
}

// ---------------------------------------------------------------------------------------
// read path: the next n read-only opens of a data file in the watched directory fail with the given errno

static READ_OPEN_FAILS: std::sync::atomic::AtomicU32 = std::sync::atomic::AtomicU32::new(0);
static READ_OPEN_ERRNO: std::sync::atomic::AtomicI32 = std::sync::atomic::AtomicI32::new(0);

pub fn fail_next_read_opens(n: u32, errno: i32) {
    READ_OPEN_ERRNO.store(errno, std::sync::atomic::Ordering::SeqCst);
    READ_OPEN_FAILS.store(n, std::sync::atomic::Ordering::SeqCst);
}

pub fn read_open_failures_left() -> u32 {
    READ_OPEN_FAILS.load(std::sync::atomic::Ordering::SeqCst)
}

fn inject_read_open_failure() -> bool {
    use std::sync::atomic::Ordering::SeqCst;
    READ_OPEN_FAILS.fetch_update(SeqCst, SeqCst, |n| if n > 0 { Some(n - 1) } else { None }).is_ok()
}

// ---------------------------------------------------------------------------------------
// accept(2): the next n calls fail with the given errno (EMFILE, ECONNABORTED, ...) and leave the pending
// connection in the backlog, as the kernel does; a callback tells the driver about each injected failure.

static ACCEPT_FAILS: std::sync::atomic::AtomicU32 = std::sync::atomic::AtomicU32::new(0);
static ACCEPT_ERRNO: std::sync::atomic::AtomicI32 = std::sync::atomic::AtomicI32::new(0);
static ACCEPT_HOOK: Mutex<Option<fn()>> = Mutex::new(None);

pub fn fail_next_accepts(n: u32, errno: i32, hook: Option<fn()>) {
    *ACCEPT_HOOK.lock().unwrap_or_else(|e| e.into_inner()) = hook;
    ACCEPT_ERRNO.store(errno, std::sync::atomic::Ordering::SeqCst);
    ACCEPT_FAILS.store(n, std::sync::atomic::Ordering::SeqCst);
}

pub fn accept_failures_left() -> u32 {
    ACCEPT_FAILS.load(std::sync::atomic::Ordering::SeqCst)
}

fn inject_accept_failure() -> bool {
    use std::sync::atomic::Ordering::SeqCst;
    loop {
        let n = ACCEPT_FAILS.load(SeqCst);
        if n == 0 {
            return false;
        }
        if ACCEPT_FAILS.compare_exchange(n, n - 1, SeqCst, SeqCst).is_ok() {
            let h = *ACCEPT_HOOK.lock().unwrap_or_else(|e| e.into_inner());
            if let Some(h) = h {
                h();
            }
            unsafe { set_errno(ACCEPT_ERRNO.load(SeqCst)) };
            return true;
        }
    }
}

#[no_mangle]
pub unsafe extern "C" fn accept4(fd: c_int, addr: *mut libc::sockaddr, len: *mut libc::socklen_t, flags: c_int) -> c_int {
    let f = real!("accept4", unsafe extern "C" fn(c_int, *mut libc::sockaddr, *mut libc::socklen_t, c_int) -> c_int);
    if inject_accept_failure() {
        return -1;
    }
    f(fd, addr, len, flags)
}

#[no_mangle]
pub unsafe extern "C" fn accept(fd: c_int, addr: *mut libc::sockaddr, len: *mut libc::socklen_t) -> c_int {
    let f = real!("accept", unsafe extern "C" fn(c_int, *mut libc::sockaddr, *mut libc::socklen_t) -> c_int);
    if inject_accept_failure() {
        return -1;
    }
    f(fd, addr, len)
}

// ---------------------------------------------------------------------------------------
// wall clock: CLOCK_REALTIME is shifted by a settable number of seconds (the clock of a real machine is
// stepped by NTP or by hand, forwards and backwards); the monotonic clocks are left alone.

static CLOCK_SKEW_S: std::sync::atomic::AtomicI64 = std::sync::atomic::AtomicI64::new(0);

pub fn set_clock_skew(secs: i64) {
    CLOCK_SKEW_S.store(secs, std::sync::atomic::Ordering::SeqCst);
}

#[no_mangle]
pub unsafe extern "C" fn clock_gettime(clk: libc::clockid_t, ts: *mut libc::timespec) -> c_int {
    let f = real!("clock_gettime", unsafe extern "C" fn(libc::clockid_t, *mut libc::timespec) -> c_int);
    let r = f(clk, ts);
    if r == 0 && clk == libc::CLOCK_REALTIME && !ts.is_null() {
        let k = CLOCK_SKEW_S.load(std::sync::atomic::Ordering::Relaxed);
        if k != 0 {
            (*ts).tv_sec += k as libc::time_t;
        }
    }
    r
}

/// Must be referenced from every binary so that this object is linked in.
pub fn init() {
    with(|_| ());
}
