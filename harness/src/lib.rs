//! Shared pieces of the conformance harness: configuration, symbolic names <-> bytes,
//! the independent scanner of data / hint files, state projection and trace output.

use std::{
    collections::BTreeMap,
    fs,
    io::Write,
    path::{Path, PathBuf},
    sync::atomic::{AtomicU64, Ordering},
};

use bitcask::storage::bitcask::{Bitcask, Config, Handle};
use bytes::Bytes;
use serde::{Deserialize, Serialize};
use serde_json::{json, Value};

pub mod shim;

/// The storage configuration of the specification (`cfg` variable of Bitcask.tla).
#[derive(Debug, Clone, Serialize, Deserialize, PartialEq)]
pub struct SpecCfg {
    #[serde(rename = "maxFile")]
    pub max_file: u64,
    pub sync: String,
    #[serde(rename = "thFragNum")]
    pub th_frag_num: u64,
    #[serde(rename = "thFragDen")]
    pub th_frag_den: u64,
    #[serde(rename = "thDead")]
    pub th_dead: u64,
    #[serde(rename = "thSmall")]
    pub th_small: u64,
}

/// Knobs that the specification says are irrelevant for sequential semantics.
#[derive(Debug, Clone, Copy)]
pub struct Knobs {
    pub concurrency: usize,
    pub cache: usize,
}

impl SpecCfg {
    /// Build the real configuration (merge policy `never`: merges are run through the hook).
    pub fn real(&self, path: &Path, knobs: Knobs) -> Config {
        let sync = match self.sync.as_str() {
            "always" => json!("always"),
            "none" => json!("none"),
            s if s.starts_with("interval:") => json!({"interval_ms": s[9..].parse::<u64>().unwrap()}),
            other => panic!("bad sync {other}"),
        };
        let v = json!({
            "path": path,
            "concurrency": knobs.concurrency,
            "readers_cache_size": knobs.cache,
            "max_file_size": self.max_file,
            "sync": sync,
            "merge": {
                "policy": "never",
                "check_interval_ms": 3_600_000u64,
                "check_jitter": 0.0,
                "triggers": {"fragmentation": 1.0, "dead_bytes": u64::MAX},
                "thresholds": {
                    "fragmentation": self.th_frag_num as f64 / self.th_frag_den as f64,
                    "dead_bytes": self.th_dead,
                    "small_file": self.th_small,
                },
            },
        });
        serde_json::from_value(v).expect("config")
    }
}

/// Symbolic keys and values of a scope and the bytes that instantiate them.
#[derive(Debug, Clone)]
pub struct Names {
    pub keys: BTreeMap<String, Vec<u8>>,
    pub vals: BTreeMap<String, Vec<u8>>,
}

/// Small deterministic generator (xorshift) so that runs are reproducible from VERIF_SEED.
#[derive(Clone)]
pub struct Rng(pub u64);
impl Rng {
    pub fn new(seed: u64) -> Self {
        Rng(seed.wrapping_mul(0x9E3779B97F4A7C15) ^ 0xD1B54A32D192ED03 | 1)
    }
    pub fn next(&mut self) -> u64 {
        let mut x = self.0;
        x ^= x << 13;
        x ^= x >> 7;
        x ^= x << 17;
        self.0 = x;
        x.wrapping_mul(0x2545F4914F6CDD1D)
    }
    pub fn below(&mut self, n: u64) -> u64 {
        self.next() % n.max(1)
    }
    pub fn pick<'a, T>(&mut self, xs: &'a [T]) -> &'a T {
        &xs[self.below(xs.len() as u64) as usize]
    }
}

const SPECIAL: [u8; 6] = [0x00, 0xFF, b'\r', b'\n', b'$', b'*'];

fn gen_bytes(rng: &mut Rng, len: usize) -> Vec<u8> {
    (0..len)
        .map(|_| {
            if rng.below(3) == 0 {
                *rng.pick(&SPECIAL)
            } else {
                rng.below(256) as u8
            }
        })
        .collect()
}

impl Names {
    /// Instantiate names with bytes of the given lengths; equal lengths get distinct bytes.
    pub fn instantiate(klen: &BTreeMap<String, usize>, vlen: &BTreeMap<String, usize>, seed: u64) -> Names {
        let mut rng = Rng::new(seed);
        let mut mk = |lens: &BTreeMap<String, usize>| {
            let mut out: BTreeMap<String, Vec<u8>> = BTreeMap::new();
            for (name, &len) in lens {
                let mut tries = 0;
                loop {
                    let mut b = gen_bytes(&mut rng, len);
                    if tries > 50 && len > 0 {
                        // tiny spaces (1 byte): walk deterministically
                        b[0] = (out.len() as u8).wrapping_mul(37).wrapping_add(tries as u8);
                    }
                    if !out.values().any(|x| *x == b) {
                        out.insert(name.clone(), b);
                        break;
                    }
                    tries += 1;
                    if len == 0 {
                        panic!("two names of length 0 in one class");
                    }
                }
            }
            out
        };
        let keys = mk(klen);
        let vals = mk(vlen);
        Names { keys, vals }
    }
    pub fn key(&self, n: &str) -> Bytes {
        Bytes::from(self.keys[n].clone())
    }
    pub fn val(&self, n: &str) -> Bytes {
        Bytes::from(self.vals[n].clone())
    }
    pub fn key_name(&self, b: &[u8]) -> String {
        self.keys
            .iter()
            .find(|(_, v)| v.as_slice() == b)
            .map(|(k, _)| k.clone())
            .unwrap_or_else(|| "?".into())
    }
    pub fn val_name(&self, b: &[u8]) -> String {
        self.vals
            .iter()
            .find(|(_, v)| v.as_slice() == b)
            .map(|(k, _)| k.clone())
            .unwrap_or_else(|| "?".into())
    }
    pub fn header(&self) -> Value {
        let k: BTreeMap<_, _> = self.keys.iter().map(|(n, b)| (n.clone(), b.len())).collect();
        let v: BTreeMap<_, _> = self.vals.iter().map(|(n, b)| (n.clone(), b.len())).collect();
        json!({"ev": "header", "keys": k, "vals": v})
    }
}

// ---------------------------------------------------------------------------------------
// Independent scanner of the on-disk format (bincode, fixed-int, little endian):
//   data entry: tstamp i64 | klen u64 | key | tag u8 (0 = tombstone, 1 = value) | [vlen u64 | value]
//   hint entry: tstamp i64 | len u64 | pos u64 | klen u64 | key
// It shares no code with the crate under test.

#[derive(Debug, Clone)]
pub struct ScanEntry {
    pub pos: u64,
    pub len: u64,
    pub key: Vec<u8>,
    pub val: Option<Vec<u8>>,
}

fn rd_u64(b: &[u8], at: usize) -> Option<u64> {
    b.get(at..at + 8).map(|s| u64::from_le_bytes(s.try_into().unwrap()))
}

/// Returns the complete entries, the number of trailing bytes that do not form a complete
/// entry, and whether those bytes are NOT a plausible prefix of an entry ("junk").
pub fn scan_data(b: &[u8]) -> (Vec<ScanEntry>, u64, bool) {
    let mut out = vec![];
    let mut at = 0usize;
    loop {
        let start = at;
        let parsed = (|| {
            let _ts = rd_u64(b, at)?;
            let klen = rd_u64(b, at + 8)? as usize;
            let key = b.get(at + 16..(at + 16).checked_add(klen)?)?.to_vec();
            let mut p = at + 16 + klen;
            let tag = *b.get(p)?;
            p += 1;
            let val = match tag {
                0 => None,
                1 => {
                    let vlen = rd_u64(b, p)? as usize;
                    let v = b.get(p + 8..(p + 8).checked_add(vlen)?)?.to_vec();
                    p += 8 + vlen;
                    Some(v)
                }
                _ => return Some(Err(())),
            };
            Some(Ok((key, val, p)))
        })();
        match parsed {
            Some(Ok((key, val, p))) => {
                out.push(ScanEntry { pos: start as u64, len: (p - start) as u64, key, val });
                at = p;
            }
            Some(Err(())) => return (out, (b.len() - start) as u64, true),
            None => return (out, (b.len() - start) as u64, false),
        }
    }
}

#[derive(Debug, Clone)]
pub struct HintEntry {
    pub key: Vec<u8>,
    pub pos: u64,
    pub len: u64,
}

pub fn scan_hint(b: &[u8]) -> (Vec<HintEntry>, u64) {
    let mut out = vec![];
    let mut at = 0usize;
    loop {
        let start = at;
        let parsed = (|| {
            let _ts = rd_u64(b, at)?;
            let len = rd_u64(b, at + 8)?;
            let pos = rd_u64(b, at + 16)?;
            let klen = rd_u64(b, at + 24)? as usize;
            let key = b.get(at + 32..(at + 32).checked_add(klen)?)?.to_vec();
            Some((key, pos, len, at + 32 + klen))
        })();
        match parsed {
            Some((key, pos, len, p)) => {
                out.push(HintEntry { key, pos, len });
                at = p;
            }
            None => return (out, (b.len() - start) as u64),
        }
    }
}

/// `(id, path)` of every file with the given extension whose name is `<id>.bitcask.<ext>`.
pub fn list_files(dir: &Path, ext: &str) -> Vec<(u64, PathBuf)> {
    let mut v = vec![];
    if let Ok(rd) = fs::read_dir(dir) {
        for e in rd.flatten() {
            let name = e.file_name().to_string_lossy().to_string();
            let parts: Vec<&str> = name.split('.').collect();
            if parts.len() == 3 && parts[1] == "bitcask" && parts[2] == ext {
                if let Ok(id) = parts[0].parse::<u64>() {
                    v.push((id, e.path()));
                }
            }
        }
    }
    v.sort();
    v
}

/// Names of directory entries that are neither data nor hint files (must stay empty).
pub fn other_files(dir: &Path) -> Vec<String> {
    let mut v = vec![];
    if let Ok(rd) = fs::read_dir(dir) {
        for e in rd.flatten() {
            let name = e.file_name().to_string_lossy().to_string();
            let parts: Vec<&str> = name.split('.').collect();
            let ok = parts.len() == 3
                && parts[1] == "bitcask"
                && (parts[2] == "data" || parts[2] == "hint")
                && parts[0].parse::<u64>().is_ok();
            if !ok {
                v.push(name);
            }
        }
    }
    v.sort();
    v
}

/// The directory in the vocabulary of the specification (variables `data` and `hint`).
pub fn scan_dir(dir: &Path, names: &Names) -> (Value, Value) {
    let mut data = vec![];
    for (id, p) in list_files(dir, "data") {
        let b = fs::read(&p).unwrap_or_default();
        let (ents, torn, junk) = scan_data(&b);
        let ents: Vec<Value> = ents
            .iter()
            .map(|e| {
                json!({"k": names.key_name(&e.key),
                       "v": match &e.val { None => "T".to_string(), Some(v) => names.val_name(v) },
                       "len": e.len})
            })
            .collect();
        data.push(json!({"id": id, "size": b.len(), "ents": ents, "torn": torn, "junk": junk}));
    }
    let mut hint = vec![];
    for (id, p) in list_files(dir, "hint") {
        let b = fs::read(&p).unwrap_or_default();
        let (ents, torn) = scan_hint(&b);
        let ents: Vec<Value> = ents
            .iter()
            .map(|e| json!({"k": names.key_name(&e.key), "pos": e.pos, "len": e.len}))
            .collect();
        hint.push(json!({"id": id, "size": b.len(), "ents": ents, "torn": torn}));
    }
    (Value::Array(data), Value::Array(hint))
}

/// Projection of the private state (dump hook) in the vocabulary of the specification.
pub fn dump_state(h: &Handle, names: &Names) -> Value {
    let d = h.verif_dump();
    let keydir: Vec<Value> = d
        .keydir
        .iter()
        .map(|(k, f, p, l)| json!({"k": names.key_name(k), "fid": f, "pos": p, "len": l}))
        .collect();
    let stats: Vec<Value> = d
        .stats
        .iter()
        .map(|(f, l, dd, db)| json!({"f": f, "live": l, "dead": dd, "dbytes": db}))
        .collect();
    json!({"active": d.active_fileid, "written": d.written_bytes, "keydir": keydir, "stats": stats})
}

pub fn full_state(h: &Handle, dir: &Path, names: &Names) -> Value {
    let mut st = dump_state(h, names);
    let (data, hint) = scan_dir(dir, names);
    st["data"] = data;
    st["hint"] = hint;
    st["other"] = json!(other_files(dir));
    st
}

/// get of every key of the scope through the public API: name -> value name | "none" | "err:.." | "panic"
pub fn read_all(h: &Handle, names: &Names) -> Value {
    use bitcask::storage::KeyValueStorage;
    let mut m = serde_json::Map::new();
    for k in names.keys.keys() {
        let key = names.key(k);
        let h2 = h.clone();
        let r = std::panic::catch_unwind(std::panic::AssertUnwindSafe(move || h2.get(key)));
        let s = match r {
            Ok(Ok(Some(v))) => names.val_name(&v),
            Ok(Ok(None)) => "none".to_string(),
            Ok(Err(e)) => format!("err:{e}"),
            Err(_) => "panic".to_string(),
        };
        m.insert(k.clone(), Value::String(s));
    }
    Value::Object(m)
}

static SCRATCH: AtomicU64 = AtomicU64::new(0);

/// A fresh scratch directory (tmpfs when available); removed by `Scratch::drop`.
pub struct Scratch(pub PathBuf);
impl Scratch {
    pub fn new(tag: &str) -> Scratch {
        let base = if Path::new("/dev/shm").is_dir() { PathBuf::from("/dev/shm") } else { std::env::temp_dir() };
        let n = SCRATCH.fetch_add(1, Ordering::Relaxed);
        let p = base.join(format!("bcverif-{}-{}-{}", std::process::id(), tag, n));
        let _ = fs::remove_dir_all(&p);
        fs::create_dir_all(&p).expect("scratch dir");
        Scratch(p)
    }
    pub fn path(&self) -> &Path {
        &self.0
    }
}
impl Drop for Scratch {
    fn drop(&mut self) {
        let _ = fs::remove_dir_all(&self.0);
    }
}

pub fn copy_dir(from: &Path, to: &Path, skip_hints: bool) {
    fs::create_dir_all(to).unwrap();
    for e in fs::read_dir(from).unwrap().flatten() {
        let name = e.file_name();
        if skip_hints && name.to_string_lossy().ends_with(".hint") {
            continue;
        }
        let _ = fs::copy(e.path(), to.join(name));
    }
}

/// What a fresh open of (a copy of) the directory reads for every key: `Err` text when the
/// open itself fails.  Runs the real recovery code; the copy is discarded afterwards.
pub fn recover_copy(dir: &Path, cfg: &SpecCfg, names: &Names, skip_hints: bool) -> Value {
    let sc = Scratch::new("rec");
    copy_dir(dir, sc.path(), skip_hints);
    recover_in_place(sc.path(), cfg, names)
}

pub fn recover_in_place(dir: &Path, cfg: &SpecCfg, names: &Names) -> Value {
    let conf = cfg.real(dir, Knobs { concurrency: 1, cache: 4 });
    let r = std::panic::catch_unwind(std::panic::AssertUnwindSafe(move || conf.open()));
    match r {
        Ok(Ok(kv)) => {
            let h = kv.get_handle();
            let m = read_all(&h, names);
            drop(kv);
            json!({"opened": true, "map": m})
        }
        Ok(Err(e)) => json!({"opened": false, "err": format!("{e}")}),
        Err(_) => json!({"opened": false, "err": "panic"}),
    }
}

/// Line-oriented trace output.
pub struct TraceOut {
    w: std::io::BufWriter<fs::File>,
    pub lines: u64,
}
impl TraceOut {
    pub fn create(p: &Path) -> TraceOut {
        if let Some(d) = p.parent() {
            let _ = fs::create_dir_all(d);
        }
        TraceOut { w: std::io::BufWriter::new(fs::File::create(p).expect("trace file")), lines: 0 }
    }
    pub fn emit(&mut self, v: &Value) {
        serde_json::to_writer(&mut self.w, v).unwrap();
        self.w.write_all(b"\n").unwrap();
        // every event reaches the file at once: the trace must be complete if the process dies
        self.w.flush().unwrap();
        self.lines += 1;
    }
    pub fn finish(mut self) -> u64 {
        self.w.flush().unwrap();
        self.lines
    }
}

pub fn open_store(dir: &Path, cfg: &SpecCfg, knobs: Knobs) -> Result<Bitcask, String> {
    let conf = cfg.real(dir, knobs);
    match std::panic::catch_unwind(std::panic::AssertUnwindSafe(move || conf.open())) {
        Ok(Ok(kv)) => Ok(kv),
        Ok(Err(e)) => Err(format!("err:{e}")),
        Err(_) => Err("panic".into()),
    }
}

/// Silence the default panic message of panics we deliberately catch.
/// Panics of the code under test are data (the drivers catch them and record the outcome); their messages are kept so
/// that a driver can say WHAT panicked (an arithmetic overflow of a counter, say).
pub static PANIC_MESSAGES: std::sync::Mutex<Vec<String>> = std::sync::Mutex::new(Vec::new());
pub fn quiet_panics() {
    std::panic::set_hook(Box::new(|info| {
        let msg = info.payload().downcast_ref::<&str>().map(|s| s.to_string())
            .or_else(|| info.payload().downcast_ref::<String>().cloned()).unwrap_or_default();
        let at = info.location().map(|l| format!(" at {}:{}", l.file(), l.line())).unwrap_or_default();
        if let Ok(mut g) = PANIC_MESSAGES.lock() {
            if g.len() < 100 {
                g.push(format!("{msg}{at}"));
            }
        }
    }));
}
pub fn take_panic_messages() -> Vec<String> {
    PANIC_MESSAGES.lock().map(|mut g| std::mem::take(&mut *g)).unwrap_or_default()
}
