//! Network driver (C06 C10 C11 C15 C16): runs the REAL server in-process (ephemeral port, address
//! through the verif hook) and plays scripted clients over real TCP sockets against it.
//!
//!   netdrive kv|hostile|limit|shutdown|lin <inputs.jsonl> <out-prefix> --shard i/n [--seed N]
//!
//! Every scenario becomes one NDJSON event holding what the clients sent and received (bytes),
//! timing facts as booleans decided with generous bounds, the server-side hook events (permits),
//! and the final store contents read through a Handle.  TraceNet.tla judges them.

use std::{
    collections::BTreeMap,
    fs,
    io::{Read, Write},
    net::{SocketAddr, TcpStream},
    path::PathBuf,
    sync::{
        atomic::{AtomicBool, AtomicU64, Ordering},
        Arc, Condvar, Mutex,
    },
    time::{Duration, Instant},
};

use bcverif::*;
use bitcask::storage::KeyValueStorage;
use bytes::Bytes;
use serde_json::{json, Value};

fn arg_val(args: &[String], name: &str) -> Option<String> {
    args.iter().position(|a| a == name).and_then(|i| args.get(i + 1).cloned())
}

struct Pending(PathBuf, fs::File);
impl Pending {
    fn new(p: PathBuf) -> Pending {
        let f = fs::File::create(&p).expect("pending file");
        Pending(p, f)
    }
    fn set(&self, v: &Value) {
        use std::os::unix::fs::FileExt;
        let b = serde_json::to_vec(v).unwrap();
        let _ = self.1.write_all_at(&b, 0);
        let _ = self.1.set_len(b.len() as u64);
    }
    fn clear(&self) {
        let _ = self.1.set_len(0);
    }
}

// ---------------------------------------------------------------------------------------
// hook events

static SEQ: AtomicU64 = AtomicU64::new(0);
static EVENTS: Mutex<Vec<(u64, &'static str, Vec<(&'static str, u64)>)>> = Mutex::new(Vec::new());
static EVCV: Condvar = Condvar::new();
/// schedule-point delays (microseconds) injected at named points, for the concurrency scenarios
static DELAY_US: AtomicU64 = AtomicU64::new(0);
static DELAY_RNG: AtomicU64 = AtomicU64::new(0x1234_5678);
/// gate: a store call of the stub blocks here until released (shutdown-while-executing)
static GATE_ARMED: AtomicBool = AtomicBool::new(false);
static GATE: Mutex<(bool, bool)> = Mutex::new((false, false)); // (someone is blocked, released)
static GATECV: Condvar = Condvar::new();

/// the next time a handler task passes the point conn.read it panics (a real panic INSIDE the handler task, not an
/// error of the store call: the task unwinds through the handler's code)
static PANIC_AT_CONN_READ: AtomicBool = AtomicBool::new(false);

fn install_hooks() {
    bitcask::verif::set_callback(Some(Arc::new(|name, fields| {
        if name == "conn.read" && PANIC_AT_CONN_READ.swap(false, Ordering::SeqCst) {
            panic!("injected panic in the connection handler");
        }
        let d = DELAY_US.load(Ordering::Relaxed);
        if d > 0 && matches!(name, "put.publishing" | "del.publishing" | "write.appended" | "get.looked_up" | "get.popped" | "merge.copied") {
            // pseudo-random delay 0..d at the linearization-relevant points
            let mut x = DELAY_RNG.load(Ordering::Relaxed);
            x ^= x << 13;
            x ^= x >> 7;
            x ^= x << 17;
            DELAY_RNG.store(x, Ordering::Relaxed);
            if x % 4 == 0 {
                std::thread::sleep(Duration::from_micros(x % d));
            } else if x % 4 == 1 {
                std::thread::yield_now();
            }
        }
        if name.starts_with("srv.") || name.starts_with("conn.") {
            let s = SEQ.fetch_add(1, Ordering::SeqCst);
            let mut g = EVENTS.lock().unwrap_or_else(|e| e.into_inner());
            // bounded: code under test that spins through a hook point must not eat the memory
            if g.len() < 200_000 {
                g.push((s, name, fields.to_vec()));
            }
            drop(g);
            EVCV.notify_all();
        }
    })));
}

/// an accept(2) failure injected by the shim, logged in the same sequence as the server hooks
fn accept_failed_hook() {
    let s = SEQ.fetch_add(1, Ordering::SeqCst);
    let mut g = EVENTS.lock().unwrap_or_else(|e| e.into_inner());
    g.push((s, "srv.accept_failed", vec![]));
}

fn take_events() -> Vec<Value> {
    let mut g = EVENTS.lock().unwrap_or_else(|e| e.into_inner());
    g.drain(..)
        .map(|(s, n, f)| {
            let mut o = json!({"seq": s, "name": n});
            for (k, v) in f {
                o[k] = json!(v);
            }
            o
        })
        .collect()
}

fn count_events(name: &str) -> usize {
    EVENTS.lock().unwrap_or_else(|e| e.into_inner()).iter().filter(|e| e.1 == name).count()
}

/// wait until the number of `name` events exceeds `n` (the server has read what was sent)
fn wait_events(name: &str, n: usize, timeout: Duration) -> bool {
    let g = EVENTS.lock().unwrap_or_else(|e| e.into_inner());
    let (_g, r) = EVCV
        .wait_timeout_while(g, timeout, |ev| ev.iter().filter(|e| e.1 == name).count() <= n)
        .unwrap_or_else(|e| e.into_inner());
    !r.timed_out()
}

// ---------------------------------------------------------------------------------------
// a stub store for the scenarios that need a misbehaving storage engine

#[derive(Clone, Default)]
struct StubStore {
    map: Arc<Mutex<BTreeMap<Vec<u8>, Vec<u8>>>>,
}
#[derive(Debug)]
struct StubError;
impl std::fmt::Display for StubError {
    fn fmt(&self, f: &mut std::fmt::Formatter<'_>) -> std::fmt::Result {
        write!(f, "stub error")
    }
}
impl std::error::Error for StubError {}
impl StubStore {
    fn special(&self, key: &[u8]) -> Result<(), StubError> {
        if key == b"boom" {
            panic!("stub store: boom");
        }
        if key == b"fail" {
            return Err(StubError);
        }
        if key == b"gate" && GATE_ARMED.load(Ordering::SeqCst) {
            let mut g = GATE.lock().unwrap();
            g.0 = true;
            GATECV.notify_all();
            while !g.1 {
                g = GATECV.wait(g).unwrap();
            }
        }
        Ok(())
    }
}
impl KeyValueStorage for StubStore {
    type Error = StubError;
    fn set(&self, key: Bytes, value: Bytes) -> Result<(), StubError> {
        self.special(&key)?;
        self.map.lock().unwrap().insert(key.to_vec(), value.to_vec());
        Ok(())
    }
    fn get(&self, key: Bytes) -> Result<Option<Bytes>, StubError> {
        self.special(&key)?;
        Ok(self.map.lock().unwrap().get(&key[..]).map(|v| Bytes::from(v.clone())))
    }
    fn del(&self, key: Bytes) -> Result<bool, StubError> {
        self.special(&key)?;
        Ok(self.map.lock().unwrap().remove(&key[..]).is_some())
    }
}

// ---------------------------------------------------------------------------------------
// a running server

struct Running {
    addr: SocketAddr,
    fire: Option<tokio::sync::oneshot::Sender<()>>,
    done: Arc<(Mutex<Option<Instant>>, Condvar)>,
    rt: Option<tokio::runtime::Runtime>,
}

fn start_server<KV: KeyValueStorage>(kv: KV, max_conn: usize) -> Running {
    let rt = tokio::runtime::Builder::new_multi_thread().worker_threads(3).enable_all().build().unwrap();
    let (tx, rx) = tokio::sync::oneshot::channel::<()>();
    let conf: bitcask::net::Config = serde_json::from_value(json!({
        "host": "127.0.0.1", "port": 0, "min_backoff_ms": 10, "max_backoff_ms": 100, "max_connections": max_conn
    }))
    .unwrap();
    let done = Arc::new((Mutex::new(None), Condvar::new()));
    let done2 = done.clone();
    let (atx, arx) = std::sync::mpsc::channel();
    rt.spawn(async move {
        let server = conf.async_server(kv, async move { let _ = rx.await; }).await.expect("bind");
        atx.send(server.verif_local_addr().unwrap()).unwrap();
        server.run().await;
        *done2.0.lock().unwrap() = Some(Instant::now());
        done2.1.notify_all();
    });
    let addr = arx.recv_timeout(Duration::from_secs(10)).expect("server address");
    Running { addr, fire: Some(tx), done, rt: Some(rt) }
}

impl Running {
    /// fire the shutdown signal; returns how long run() took to return (None = not within bound)
    fn shutdown(&mut self, bound: Duration) -> Option<Duration> {
        let t0 = Instant::now();
        if let Some(f) = self.fire.take() {
            let _ = f.send(());
        }
        self.wait_returned(t0, bound)
    }
    fn wait_returned(&self, t0: Instant, bound: Duration) -> Option<Duration> {
        let g = self.done.0.lock().unwrap();
        let (g, r) = self.done.1.wait_timeout_while(g, bound, |d| d.is_none()).unwrap();
        if r.timed_out() {
            None
        } else {
            Some(g.unwrap().saturating_duration_since(t0))
        }
    }
    fn stop(mut self) {
        if self.fire.is_some() {
            let _ = self.shutdown(Duration::from_secs(3));
        }
        if let Some(rt) = self.rt.take() {
            rt.shutdown_timeout(Duration::from_millis(200));
        }
    }
}

// ---------------------------------------------------------------------------------------
// client side helpers (blocking sockets)

/// SO_LINGER 0: closing the socket sends RST instead of FIN
fn set_linger0(s: &TcpStream) {
    use std::os::unix::io::AsRawFd;
    let l = libc::linger { l_onoff: 1, l_linger: 0 };
    unsafe {
        libc::setsockopt(s.as_raw_fd(), libc::SOL_SOCKET, libc::SO_LINGER, &l as *const _ as *const libc::c_void,
                         std::mem::size_of::<libc::linger>() as libc::socklen_t);
    }
}

fn connect(addr: SocketAddr) -> Option<TcpStream> {
    let s = TcpStream::connect_timeout(&addr, Duration::from_secs(2)).ok()?;
    let _ = s.set_nodelay(true);
    Some(s)
}

/// read until `want` bytes arrived, EOF, error or the deadline; returns (bytes, how it ended)
fn read_some(s: &mut TcpStream, want: usize, timeout: Duration) -> (Vec<u8>, &'static str) {
    let deadline = Instant::now() + timeout;
    let mut out = vec![];
    let mut buf = [0u8; 65536];
    loop {
        if out.len() >= want {
            return (out, "ok");
        }
        let left = deadline.saturating_duration_since(Instant::now());
        if left.is_zero() {
            return (out, "timeout");
        }
        let _ = s.set_read_timeout(Some(left.max(Duration::from_millis(1))));
        match s.read(&mut buf) {
            Ok(0) => return (out, "eof"),
            Ok(n) => out.extend_from_slice(&buf[..n]),
            Err(e) if matches!(e.kind(), std::io::ErrorKind::WouldBlock | std::io::ErrorKind::TimedOut) => return (out, "timeout"),
            Err(_) => return (out, "reset"),
        }
    }
}

fn bulk(b: &[u8]) -> Vec<u8> {
    let mut v = format!("${}\r\n", b.len()).into_bytes();
    v.extend_from_slice(b);
    v.extend_from_slice(b"\r\n");
    v
}
fn cmd(parts: &[&[u8]]) -> Vec<u8> {
    let mut v = format!("*{}\r\n", parts.len()).into_bytes();
    for p in parts {
        v.extend(bulk(p));
    }
    v
}
fn bj(b: &[u8]) -> Value {
    json!(b.iter().map(|x| *x as u64).collect::<Vec<_>>())
}
fn jb(v: &Value) -> Vec<u8> {
    v.as_array().map(|a| a.iter().map(|x| x.as_u64().unwrap_or(0) as u8).collect()).unwrap_or_default()
}

/// requests as {op,k,v|ks} with byte arrays -> wire bytes
fn encode_req(r: &Value) -> Vec<u8> {
    match r["op"].as_str().unwrap_or("") {
        "set" => cmd(&[b"SET", &jb(&r["k"]), &jb(&r["v"])]),
        "get" => cmd(&[b"GET", &jb(&r["k"])]),
        "del" => {
            let ks: Vec<Vec<u8>> = r["ks"].as_array().unwrap().iter().map(jb).collect();
            let mut parts: Vec<&[u8]> = vec![b"DEL"];
            for k in &ks {
                parts.push(k);
            }
            cmd(&parts)
        }
        o => panic!("op {o}"),
    }
}

fn open_real_store(dir: &std::path::Path, max_file: u64) -> bitcask::storage::bitcask::Bitcask {
    let cfg = SpecCfg { max_file, sync: "none".into(), th_frag_num: 1, th_frag_den: 2, th_dead: 200, th_small: 64 };
    open_store(dir, &cfg, Knobs { concurrency: 4, cache: 16 }).expect("open store")
}

fn store_contents(h: &bitcask::storage::bitcask::Handle, keys: &[Vec<u8>]) -> Value {
    let mut m = vec![];
    for k in keys {
        let v = match h.get(Bytes::from(k.clone())) {
            Ok(Some(v)) => json!({"k": bj(k), "v": bj(&v)}),
            Ok(None) => json!({"k": bj(k), "absent": true}),
            Err(e) => json!({"k": bj(k), "err": format!("{e}")}),
        };
        m.push(v);
    }
    json!(m)
}

// ---------------------------------------------------------------------------------------
// kv: one connection, a request sequence under several delivery disciplines (C06)

fn kv_mode(inputs: &[Value], seed: u64, si: usize, sn: usize, out: &mut TraceOut, pend: &Pending) -> u64 {
    let mut rng = Rng::new(seed.wrapping_add(si as u64 * 977));
    let mut n = 0;
    for (i, inp) in inputs.iter().enumerate() {
        if i % sn != si {
            continue;
        }
        let reqs = inp["reqs"].as_array().unwrap();
        let wire: Vec<Vec<u8>> = reqs.iter().map(encode_req).collect();
        let all: Vec<u8> = wire.concat();
        let mut keys: Vec<Vec<u8>> = vec![];
        for r in reqs {
            if let Some(k) = r.get("k") {
                keys.push(jb(k));
            }
            if let Some(ks) = r.get("ks").and_then(|x| x.as_array()) {
                keys.extend(ks.iter().map(jb));
            }
        }
        keys.sort();
        keys.dedup();
        // delivery disciplines: (name, segments, read a reply after each request?)
        let mut plans: Vec<(String, Vec<Vec<u8>>, bool)> = vec![];
        plans.push(("one-by-one".into(), wire.clone(), true));
        plans.push(("pipelined".into(), vec![all.clone()], false));
        if all.len() <= 400 {
            plans.push(("bytewise".into(), all.iter().map(|b| vec![*b]).collect(), false));
        }
        let mut cuts: Vec<usize> = vec![];
        // always: between CR and LF of the last request, and inside the first request
        if all.len() > 2 {
            cuts.push(all.len() - 1);
            cuts.push(1);
        }
        for _ in 0..3 {
            if all.len() > 1 {
                cuts.push(1 + rng.below(all.len() as u64 - 1) as usize);
            }
        }
        cuts.sort();
        cuts.dedup();
        for c in &cuts {
            plans.push((format!("cut@{c}"), vec![all[..*c].to_vec(), all[*c..].to_vec()], false));
        }
        // the client reads the replies to the requests that are COMPLETE in the first segment before it
        // sends the rest of the request the cut fell into
        let mut wait_plans: Vec<(String, Vec<Vec<u8>>, usize)> = vec![];
        for c in &cuts {
            let mut done = 0usize;
            let mut acc = 0usize;
            for w in &wire {
                acc += w.len();
                if acc <= *c {
                    done += 1;
                }
            }
            if done >= 1 && done < wire.len() {
                wait_plans.push((format!("cut-wait@{c}"), vec![all[..*c].to_vec(), all[*c..].to_vec()], done));
            }
        }
        for (how, segs, interleave) in plans {
            pend.set(&json!({"ev": "kv", "reqs": inp["reqs"], "how": how, "phase": "run"}));
            let sc = Scratch::new("net");
            let kv = open_real_store(sc.path(), 120);
            let h = kv.get_handle();
            let _ = take_events();
            let srv = start_server(h.clone(), 8);
            let mut recv: Vec<u8> = vec![];
            let mut ending = "ok";
            let mut served_segments = 0usize;
            if let Some(mut s) = connect(srv.addr) {
                for seg in &segs {
                    let before = count_events("conn.read");
                    if s.write_all(seg).is_err() {
                        ending = "send-failed";
                        break;
                    }
                    served_segments += 1;
                    if interleave {
                        // wait for exactly one more reply: replies are self-delimiting, read what comes
                        let (b, e) = read_reply_bytes(&mut s, 1, Duration::from_secs(3));
                        recv.extend(b);
                        if e != "ok" {
                            ending = e;
                            break;
                        }
                    } else if segs.len() > 1 {
                        // make sure the server really sees this segment on its own
                        wait_events("conn.read", before, Duration::from_millis(500));
                    }
                }
                if !interleave && ending == "ok" {
                    let (b, e) = read_reply_bytes(&mut s, reqs.len(), Duration::from_secs(3));
                    recv.extend(b);
                    ending = e;
                }
                // nothing more may arrive
                let (extra, _) = read_some(&mut s, 1, Duration::from_millis(20));
                recv.extend(extra);
            } else {
                ending = "connect-failed";
            }
            let store = store_contents(&h, &keys);
            srv.stop();
            drop(kv);
            pend.clear();
            out.emit(&json!({"ev": "kv", "reqs": inp["reqs"], "how": how, "nsegs": segs.len(), "sent_segments": served_segments,
                             "recv": bj(&recv), "ending": ending, "store": store}));
            n += 1;
        }
        // the same requests through the repository's own client library (net::Client), one call at a time;
        // its results are written back in the reply encoding so that the same judge applies
        if keys.iter().all(|k| std::str::from_utf8(k).is_ok()) {
            pend.set(&json!({"ev": "kv", "reqs": inp["reqs"], "how": "client", "phase": "run"}));
            let sc = Scratch::new("net");
            let kv = open_real_store(sc.path(), 120);
            let h = kv.get_handle();
            let srv = start_server(h.clone(), 8);
            let rt = tokio::runtime::Builder::new_current_thread().enable_all().build().unwrap();
            let addr = srv.addr;
            let reqs2: Vec<Value> = reqs.clone();
            let (recv, ending): (Vec<u8>, String) = rt.block_on(async move {
                let mut recv = vec![];
                let mut c = match tokio::time::timeout(Duration::from_secs(3), bitcask::net::Client::connect(addr)).await {
                    Ok(Ok(c)) => c,
                    _ => return (recv, "connect-failed".to_string()),
                };
                for r in &reqs2 {
                    let s = |v: &Value| String::from_utf8(jb(v)).unwrap();
                    let one = async {
                        match r["op"].as_str().unwrap_or("") {
                            "set" => c.set(s(&r["k"]), Bytes::from(jb(&r["v"]))).await.map(|_| b"+OK\r\n".to_vec()),
                            "get" => c.get(s(&r["k"])).await.map(|v| match v {
                                Some(b) => bulk(&b),
                                None => b"$-1\r\n".to_vec(),
                            }),
                            _ => c.del(r["ks"].as_array().unwrap().iter().map(|k| s(k)).collect()).await.map(|n| format!(":{n}\r\n").into_bytes()),
                        }
                    };
                    match tokio::time::timeout(Duration::from_secs(3), one).await {
                        Ok(Ok(b)) => recv.extend(b),
                        Ok(Err(e)) => return (recv, format!("client-error: {e}")),
                        Err(_) => return (recv, "timeout".to_string()),
                    }
                }
                (recv, "ok".to_string())
            });
            drop(rt);
            let store = store_contents(&h, &keys);
            srv.stop();
            drop(kv);
            pend.clear();
            out.emit(&json!({"ev": "kv", "reqs": inp["reqs"], "how": "client", "nsegs": reqs.len(), "sent_segments": reqs.len(),
                             "recv": bj(&recv), "ending": ending, "store": store}));
            n += 1;
        }
        for (how, segs, first_replies) in wait_plans {
            pend.set(&json!({"ev": "kv", "reqs": inp["reqs"], "how": how, "phase": "run"}));
            let sc = Scratch::new("net");
            let kv = open_real_store(sc.path(), 120);
            let h = kv.get_handle();
            let _ = take_events();
            let srv = start_server(h.clone(), 8);
            let mut recv: Vec<u8> = vec![];
            let mut ending = "ok";
            if let Some(mut s) = connect(srv.addr) {
                if s.write_all(&segs[0]).is_err() {
                    ending = "send-failed";
                } else {
                    let (b, e) = read_reply_bytes(&mut s, first_replies, Duration::from_secs(3));
                    recv.extend(b);
                    if e != "ok" {
                        ending = e;
                    } else if s.write_all(&segs[1]).is_err() {
                        ending = "send-failed";
                    } else {
                        let mut rest = vec![];
                        let (b, e) = read_reply_bytes_from(&mut s, &recv, reqs.len(), Duration::from_secs(3), &mut rest);
                        let _ = b;
                        recv.extend(rest);
                        ending = e;
                    }
                }
                let (extra, _) = read_some(&mut s, 1, Duration::from_millis(20));
                recv.extend(extra);
            } else {
                ending = "connect-failed";
            }
            let store = store_contents(&h, &keys);
            srv.stop();
            drop(kv);
            pend.clear();
            out.emit(&json!({"ev": "kv", "reqs": inp["reqs"], "how": how, "nsegs": 2, "sent_segments": 2,
                             "recv": bj(&recv), "ending": ending, "store": store}));
            n += 1;
        }
    }
    // deep pipelining of large replies without reading: the replies must come out byte-exact under
    // back-pressure (too large for the trace: the driver's independent splitter counts exact replies)
    if si == 0 {
        // (the last one: the client half-closes after its last request and reads late and slowly - every
        // reply must still arrive, the server's close must not cut what it has already written)
        for (vlen, depth, halfclose) in [(8191usize, 600usize, false), (8192, 600, false), (65536, 200, false), (262144, 16, true)] {
            pend.set(&json!({"ev": "kvbulk", "vlen": vlen, "depth": depth, "halfclose": halfclose, "phase": "run"}));
            let sc = Scratch::new("net");
            let kv = open_real_store(sc.path(), 1_000_000);
            let h = kv.get_handle();
            let srv = start_server(h.clone(), 8);
            let value: Vec<u8> = (0..vlen).map(|i| if i % 101 == 0 { b'\r' } else if i % 103 == 0 { b'\n' } else { b'a' + (i % 26) as u8 }).collect();
            let mut exact = 0usize;
            let mut ending = "ok";
            let mut got_len = 0usize;
            if let Some(mut s) = connect(srv.addr) {
                let _ = s.write_all(&cmd(&[b"SET", b"big", &value]));
                let (b, _) = read_reply_bytes(&mut s, 1, Duration::from_secs(5));
                if b != b"+OK\r\n" {
                    ending = "set-failed";
                }
                // writer thread: all GETs without waiting; reader starts only after a pause
                let mut w = s.try_clone().unwrap();
                let req = cmd(&[b"GET", b"big"]);
                let wt = std::thread::spawn(move || {
                    for _ in 0..depth {
                        if w.write_all(&req).is_err() {
                            break;
                        }
                    }
                });
                let expect = bulk(&value);
                let total = expect.len() * depth;
                let (b, e) = if halfclose {
                    let _ = wt.join();
                    let _ = s.shutdown(std::net::Shutdown::Write);
                    std::thread::sleep(Duration::from_millis(300));
                    // 16 KiB per millisecond
                    let mut b: Vec<u8> = Vec::with_capacity(total);
                    let mut chunk = vec![0u8; 16384];
                    let _ = s.set_read_timeout(Some(Duration::from_secs(5)));
                    let mut e = "ok";
                    while b.len() < total {
                        match s.read(&mut chunk) {
                            Ok(0) => {
                                e = "eof";
                                break;
                            }
                            Ok(k) => b.extend_from_slice(&chunk[..k]),
                            Err(x) if x.kind() == std::io::ErrorKind::WouldBlock || x.kind() == std::io::ErrorKind::TimedOut => {
                                e = "timeout";
                                break;
                            }
                            Err(_) => {
                                e = "reset";
                                break;
                            }
                        }
                        std::thread::sleep(Duration::from_millis(1));
                    }
                    (b, e)
                } else {
                    std::thread::sleep(Duration::from_millis(300));
                    let r = read_some(&mut s, total, Duration::from_secs(20));
                    let _ = wt.join();
                    r
                };
                got_len = b.len();
                if e != "ok" {
                    ending = e;
                }
                for i in 0..depth {
                    let (a, z) = (i * expect.len(), (i + 1) * expect.len());
                    if z <= b.len() && b[a..z] == expect[..] {
                        exact += 1;
                    }
                }
            } else {
                ending = "connect-failed";
            }
            srv.stop();
            drop(kv);
            pend.clear();
            out.emit(&json!({"ev": "kvbulk", "vlen": vlen, "depth": depth, "exact": exact, "received": got_len, "ending": ending}));
            n += 1;
        }
    }
    // a REQUEST frame far larger than any buffer (just above 64 KiB, 1 MiB, 4 MiB; 16 MiB in the long run) with more
    // requests pipelined behind it, delivered all at once / with the tail of the large request in one segment with the
    // next requests / one request per write: one reply per request, in order, byte for byte, and the store holds what was
    // acknowledged (too large for the trace: judged against the expected bytes here, recorded as counts)
    if si == 1 % sn {
        let big_sizes: &[usize] = if std::env::var("VERIF_TIER").map(|t| t == "thorough").unwrap_or(false) {
            &[65_537, 1_048_577, 4_194_305, 16_777_217]
        } else {
            &[65_537, 1_048_577, 4_194_305]
        };
        for &vlen in big_sizes {
            for how in ["all-at-once", "tail-with-next", "split-mid-next", "one-per-write"] {
                pend.set(&json!({"ev": "kvbig", "vlen": vlen, "how": how, "phase": "run"}));
                let sc = Scratch::new("net");
                let kv = open_real_store(sc.path(), 1_000_000);
                let h = kv.get_handle();
                let srv = start_server(h.clone(), 8);
                let value: Vec<u8> = (0..vlen).map(|i| if i % 101 == 0 { b'\r' } else if i % 103 == 0 { b'\n' } else { b'a' + (i % 26) as u8 }).collect();
                let wire: Vec<Vec<u8>> = vec![
                    cmd(&[b"SET", b"big", &value]),
                    cmd(&[b"SET", b"x", b"1"]),
                    cmd(&[b"GET", b"x"]),
                    cmd(&[b"DEL", b"x", b"nope"]),
                    cmd(&[b"GET", b"x"]),
                    cmd(&[b"SET", b"y", b"2"]),
                ];
                let expect: Vec<Vec<u8>> = vec![b"+OK\r\n".to_vec(), b"+OK\r\n".to_vec(), bulk(b"1"), b":1\r\n".to_vec(), b"$-1\r\n".to_vec(), b"+OK\r\n".to_vec()];
                let all: Vec<u8> = wire.concat();
                let l0 = wire[0].len();
                let segs: Vec<Vec<u8>> = match how {
                    "all-at-once" => vec![all.clone()],
                    "tail-with-next" => vec![all[..l0 - 2].to_vec(), all[l0 - 2..].to_vec()],
                    "split-mid-next" => vec![all[..l0 + 7].to_vec(), all[l0 + 7..].to_vec()],
                    _ => wire.clone(),
                };
                let mut recv: Vec<u8> = vec![];
                let mut ending = "ok";
                if let Some(mut s) = connect(srv.addr) {
                    for (i, seg) in segs.iter().enumerate() {
                        if s.write_all(seg).is_err() {
                            ending = "send-failed";
                            break;
                        }
                        if i + 1 < segs.len() {
                            std::thread::sleep(Duration::from_millis(if how == "one-per-write" { 5 } else { 150 }));
                        }
                    }
                    if ending == "ok" {
                        let (b, e) = read_reply_bytes(&mut s, wire.len(), Duration::from_secs(20));
                        recv = b;
                        ending = e;
                    }
                    let (extra, _) = read_some(&mut s, 1, Duration::from_millis(20));
                    recv.extend(extra);
                } else {
                    ending = "connect-failed";
                }
                let want: Vec<u8> = expect.concat();
                let mut exact = 0usize;
                let mut at = 0usize;
                for e in &expect {
                    if recv.len() >= at + e.len() && recv[at..at + e.len()] == e[..] {
                        exact += 1;
                        at += e.len();
                    } else {
                        break;
                    }
                }
                let store_ok = h.get(Bytes::from_static(b"big")).ok().flatten().map(|b| b[..] == value[..]).unwrap_or(false)
                    && h.get(Bytes::from_static(b"x")).ok().flatten().is_none()
                    && h.get(Bytes::from_static(b"y")).ok().flatten().map(|b| &b[..] == b"2").unwrap_or(false);
                srv.stop();
                drop(kv);
                pend.clear();
                out.emit(&json!({"ev": "kvbig", "vlen": vlen, "how": how, "requests": wire.len(), "exact": exact, "received": recv.len(),
                                 "expected": want.len(), "ending": ending, "store_ok": store_ok}));
                n += 1;
            }
        }
    }
    n
}

/// continue reading until `count` replies are complete in `already ++ new`
fn read_reply_bytes_from(s: &mut TcpStream, already: &[u8], count: usize, timeout: Duration, out: &mut Vec<u8>) -> (usize, &'static str) {
    let deadline = Instant::now() + timeout;
    let mut all = already.to_vec();
    loop {
        if count_replies(&all) >= count {
            return (out.len(), "ok");
        }
        let left = deadline.saturating_duration_since(Instant::now());
        if left.is_zero() {
            return (out.len(), "timeout");
        }
        let (b, e) = read_some(s, 1, left);
        all.extend_from_slice(&b);
        out.extend(b);
        if e != "ok" {
            return (out.len(), e);
        }
    }
}

/// Read `count` complete RESP replies (simple/error/integer lines, bulk strings, null).
fn read_reply_bytes(s: &mut TcpStream, count: usize, timeout: Duration) -> (Vec<u8>, &'static str) {
    let deadline = Instant::now() + timeout;
    let mut buf: Vec<u8> = vec![];
    loop {
        if count_replies(&buf) >= count {
            return (buf, "ok");
        }
        let left = deadline.saturating_duration_since(Instant::now());
        if left.is_zero() {
            return (buf, "timeout");
        }
        let (b, e) = read_some(s, 1, left);
        buf.extend(b);
        if e != "ok" {
            return (buf, e);
        }
    }
}

/// Independent reply splitter: number of complete replies at the start of `b` (server replies are
/// never arrays); usize::MAX/2 marks garbage.
fn split_replies(b: &[u8]) -> (usize, usize) {
    let mut at = 0;
    let mut n = 0;
    loop {
        if at >= b.len() {
            return (n, at);
        }
        let line_end = match b[at..].windows(2).position(|w| w == b"\r\n") {
            Some(p) => at + p,
            None => return (n, at),
        };
        match b[at] {
            b'+' | b'-' | b':' => {
                at = line_end + 2;
                n += 1;
            }
            b'$' => {
                let l = std::str::from_utf8(&b[at + 1..line_end]).ok().and_then(|s| s.parse::<i64>().ok());
                match l {
                    Some(-1) => {
                        at = line_end + 2;
                        n += 1;
                    }
                    Some(l) if l >= 0 => {
                        let end = line_end + 2 + l as usize + 2;
                        if end > b.len() {
                            return (n, at);
                        }
                        at = end;
                        n += 1;
                    }
                    _ => return (n, at),
                }
            }
            _ => return (n, at),
        }
    }
}
fn count_replies(b: &[u8]) -> usize {
    split_replies(b).0
}

// ---------------------------------------------------------------------------------------
// hostile: one connection sends arbitrary bytes while a control connection does real work (C10)

fn hostile_mode(inputs: &[Value], _seed: u64, si: usize, sn: usize, out: &mut TraceOut, pend: &Pending) -> u64 {
    let mut n = 0;
    // one server for many hostile streams (that is the point: it must survive all of them)
    let sc = Scratch::new("net");
    let kv = open_real_store(sc.path(), 200);
    let h = kv.get_handle();
    let srv = start_server(h.clone(), 4);
    let mut control = connect(srv.addr).expect("control connection");
    let mut round = 0u64;
    for (i, inp) in inputs.iter().enumerate() {
        if i % sn != si {
            continue;
        }
        round += 1;
        let stream: Vec<u8> = if let Some(k) = inp.get("nest").and_then(|x| x.as_u64()) {
            let mut v = Vec::with_capacity(k as usize * 4 + 8);
            for _ in 0..k {
                v.extend_from_slice(b"*1\r\n");
            }
            if inp["complete"].as_bool().unwrap_or(true) {
                v.extend_from_slice(b":1\r\n");
            }
            v
        } else if let Some(rep) = inp.get("repeat") {
            // a flood: one unit repeated (line breaks, single bytes, the shortest frames)
            let unit = jb(&rep["unit"]);
            let k = rep["count"].as_u64().unwrap_or(1) as usize;
            unit.iter().copied().cycle().take(unit.len() * k).collect()
        } else {
            jb(&inp["stream"])
        };
        let short = stream.len() <= 300;
        pend.set(&json!({"ev": "hostile", "stream": if short { bj(&stream) } else { json!([]) }, "tag": inp["tag"], "len": stream.len(), "phase": "run"}));
        // control: store a value only this round knows
        let ck = b"ctl".to_vec();
        let cv = format!("v{round}").into_bytes();
        let mut ctl: Vec<Value> = vec![];
        let ask = |c: &mut TcpStream, req: Vec<u8>, ctl: &mut Vec<Value>| {
            let ok = c.write_all(&req).is_ok();
            let (b, e) = if ok { read_reply_bytes(c, 1, Duration::from_secs(3)) } else { (vec![], "send-failed") };
            ctl.push(json!({"req": bj(&req), "reply": bj(&b), "ending": e}));
        };
        ask(&mut control, cmd(&[b"SET", &ck, &cv]), &mut ctl);
        ask(&mut control, cmd(&[b"SET", b"victim", b"keep"]), &mut ctl);
        if inp["special"].as_str() == Some("rst-backlog") {
            // a client that resets its connection before the server has accepted it: every slot is taken
            // while it connects and goes away, then the slots free up and the listener accepts a dead socket
            let mut fillers = vec![];
            for _ in 0..3 {
                if let Some(mut f) = connect(srv.addr) {
                    let _ = served(&mut f, Duration::from_secs(2));
                    fillers.push(f);
                }
            }
            for _ in 0..2 {
                if let Some(r) = connect(srv.addr) {
                    set_linger0(&r);
                    drop(r);
                }
            }
            std::thread::sleep(Duration::from_millis(30));
            drop(fillers);
            std::thread::sleep(Duration::from_millis(50));
        }
        if inp["special"].as_str() == Some("handler-panic") {
            PANIC_AT_CONN_READ.store(true, Ordering::SeqCst);
        }
        // the hostile connection
        let mut hostile_recv = vec![];
        let mut hostile_end = "connect-failed";
        let mut lingering: Option<TcpStream> = None;
        if let Some(mut hs) = connect(srv.addr) {
            let _ = hs.write_all(&stream);
            let (b, e) = read_some(&mut hs, usize::MAX, Duration::from_millis(if stream.len() > 100_000 { 600 } else { 40 }));
            hostile_recv = b;
            hostile_end = e;
            // half of the hostile clients stay connected while the control traffic goes on
            if round % 2 == 0 {
                drop(hs);
            } else {
                lingering = Some(hs);
            }
        }
        PANIC_AT_CONN_READ.store(false, Ordering::SeqCst);
        ask(&mut control, cmd(&[b"GET", &ck]), &mut ctl);
        ask(&mut control, cmd(&[b"GET", b"victim"]), &mut ctl);
        // a fresh connection is still accepted and served
        let mut fresh_ok = false;
        if let Some(mut f) = connect(srv.addr) {
            let _ = f.write_all(&cmd(&[b"GET", &ck]));
            let (b, e) = read_reply_bytes(&mut f, 1, Duration::from_secs(3));
            fresh_ok = e == "ok" && b == bulk(&cv);
        }
        drop(lingering);
        // the full configured number of connections can still be served at once (the control connection plus
        // max - 1 new ones, all open together): a hostile stream must not cost the server a connection slot
        let mut capacity_ok = true;
        if fresh_ok {
            let mut open = vec![];
            for _ in 0..3 {
                match connect(srv.addr) {
                    Some(mut f) => {
                        let _ = f.write_all(&cmd(&[b"GET", &ck]));
                        let (b, e) = read_reply_bytes(&mut f, 1, Duration::from_secs(6));
                        if !(e == "ok" && b == bulk(&cv)) {
                            capacity_ok = false;
                        }
                        open.push(f);
                    }
                    None => capacity_ok = false,
                }
                if !capacity_ok {
                    break;
                }
            }
            drop(open);
        }
        let store = store_contents(&h, &[ck.clone(), b"victim".to_vec(), b"alpha".to_vec()]);
        pend.clear();
        out.emit(&json!({"ev": "hostile", "tag": inp["tag"], "stream": if short { bj(&stream) } else { json!([]) }, "len": stream.len(),
                         "hostile_recv": bj(&hostile_recv[..hostile_recv.len().min(200)]), "hostile_end": hostile_end,
                         "control": ctl, "ck": bj(&ck), "cv": bj(&cv), "fresh_ok": fresh_ok, "capacity_ok": capacity_ok, "store": store}));
        n += 1;
        if round % 3 == 0 {
            // keep within max_connections: leaked hostile sockets are closed by dropping the process-wide list
            // (forgotten sockets stay open on purpose; the server has 4 slots and each run needs 3)
        }
        // the server failed the control connection: that is the verdict, do not grind through the
        // rest of the streams against a broken server
        if ctl.iter().any(|c| c["ending"] != "ok") || !fresh_ok || !capacity_ok {
            break;
        }
    }
    srv.stop();
    drop(kv);
    n
}

// ---------------------------------------------------------------------------------------
// Timeline of a scenario: the client actions (logged BEFORE the socket call, with the same sequence
// counter as the server hooks) for the mechanism-level validation against Server.tla.

#[derive(Default)]
struct Timeline {
    next: usize,
    ports: BTreeMap<u16, String>,
    client: Vec<Value>,
}
impl Timeline {
    fn log(&mut self, name: &str, c: &str, kind: &str) {
        let s = SEQ.fetch_add(1, Ordering::SeqCst);
        self.client.push(json!({"seq": s, "name": name, "c": c, "kind": kind}));
    }
    fn connect(&mut self, addr: SocketAddr) -> Option<(TcpStream, String)> {
        self.next += 1;
        let c = format!("c{}", self.next);
        self.log("c.connect", &c, "-");
        let s = connect(addr)?;
        if let Ok(a) = s.local_addr() {
            self.ports.insert(a.port(), c.clone());
        }
        Some((s, c))
    }
    fn send(&mut self, c: &str, kind: &str) {
        self.log("c.send", c, kind);
    }
    fn close(&mut self, c: &str) {
        self.log("c.close", c, "-");
    }
    fn fire(&mut self) {
        self.log("fire", "-", "-");
    }
    /// merge with the server hook events by sequence number
    fn merged(&self, hooks: &[Value]) -> Vec<Value> {
        let mut all: Vec<Value> = self.client.clone();
        for h in hooks {
            let name = h["name"].as_str().unwrap_or("");
            if !name.starts_with("srv.") {
                continue;
            }
            let mut e = h.clone();
            if name == "srv.accepted" {
                let port = h["peer_port"].as_u64().unwrap_or(0) as u16;
                e["c"] = json!(self.ports.get(&port).cloned().unwrap_or_else(|| "c0".into()));
            }
            all.push(e);
        }
        all.sort_by_key(|e| e["seq"].as_u64().unwrap_or(0));
        all
    }
}

// ---------------------------------------------------------------------------------------
// limit: the connection limit and slot accounting (C15)

fn served_tl(tl: &mut Timeline, c: &str, s: &mut TcpStream, timeout: Duration) -> bool {
    tl.send(c, "get");
    served(s, timeout)
}

fn served(s: &mut TcpStream, timeout: Duration) -> bool {
    if s.write_all(&cmd(&[b"GET", b"probe"])).is_err() {
        return false;
    }
    let (b, e) = read_reply_bytes(s, 1, timeout);
    e == "ok" && !b.is_empty()
}

fn limit_mode(inputs: &[Value], _seed: u64, si: usize, sn: usize, out: &mut TraceOut, pend: &Pending) -> u64 {
    let mut n = 0;
    for (i, inp) in inputs.iter().enumerate() {
        if i % sn != si {
            continue;
        }
        let max = inp["max"].as_u64().unwrap() as usize;
        let endings: Vec<String> = inp["endings"].as_array().unwrap().iter().map(|x| x.as_str().unwrap().to_string()).collect();
        pend.set(&json!({"ev": "limit", "max": max, "endings": endings, "phase": "run"}));
        let _ = take_events();
        let store = StubStore::default();
        let srv = start_server(store.clone(), max);
        let mut tl = Timeline::default();
        let mut steps: Vec<Value> = vec![];
        let quick = Duration::from_millis(150);
        let slow = Duration::from_secs(3);
        // fill every slot
        let mut held: Vec<(TcpStream, String)> = vec![];
        for _ in 0..max {
            let (mut s, c) = tl.connect(srv.addr).expect("connect");
            let ok = served_tl(&mut tl, &c, &mut s, slow);
            steps.push(json!({"step": "fill", "served": ok}));
            held.push((s, c));
        }
        for ending in &endings {
            // one more client than there are slots: must wait
            let (mut extra, extra_c) = tl.connect(srv.addr).expect("connect");
            let early = served_tl(&mut tl, &extra_c, &mut extra, quick);
            steps.push(json!({"step": "extra-while-full", "served": early}));
            if ending == "rst-in-backlog" {
                // a second waiting client resets its connection while still un-accepted
                if let Some((r, rc)) = tl.connect(srv.addr) {
                    set_linger0(&r);
                    tl.close(&rc);
                    drop(r);
                }
                std::thread::sleep(Duration::from_millis(30));
            }
            if ending == "accept-error" {
                // the next two accept(2) calls of the listener fail (out of descriptors): it backs off and
                // retries, still holding the one permit it took for the connection it is waiting for
                bcverif::shim::fail_next_accepts(2, libc::EMFILE, Some(accept_failed_hook));
            }
            // one served connection ends in the given way
            let (mut victim, vc) = held.remove(0);
            match ending.as_str() {
                "close" | "rst-in-backlog" | "accept-error" => {
                    tl.close(&vc);
                    drop(victim)
                }
                "rejected-plus-half" => {
                    // a well-formed frame that is not a command, the start of another frame in the same
                    // segment, then a clean close
                    tl.send(&vc, "bad");
                    let _ = victim.write_all(b"*1\r\n$4\r\nPING\r\n*2\r\n$3\r\nGET\r\n$1\r\n");
                    std::thread::sleep(Duration::from_millis(20));
                    tl.close(&vc);
                    drop(victim);
                }
                "half-frame" => {
                    tl.send(&vc, "half");
                    let _ = victim.write_all(b"*2\r\n$3\r\nGET\r\n$5\r\nab");
                    std::thread::sleep(Duration::from_millis(20));
                    tl.close(&vc);
                    drop(victim);
                }
                // half a frame whose bytes are not ASCII: a two-byte character straddling every offset from
                // 40 to 60 (whatever the server does with leftover input must not depend on its bytes)
                "half-frame-utf8" => {
                    tl.send(&vc, "half");
                    let mut b = b"*3\r\n$3\r\nSET\r\n$1\r\nk\r\n$400\r\n".to_vec();
                    let odd = held.len() % 2;
                    b.extend(std::iter::repeat(b'a').take(13 + odd));
                    for _ in 0..40 {
                        b.extend_from_slice("é".as_bytes());
                    }
                    let _ = victim.write_all(&b);
                    std::thread::sleep(Duration::from_millis(20));
                    tl.close(&vc);
                    drop(victim);
                }
                "half-frame-open" => {
                    // sends half a frame and goes away without closing cleanly (RST)
                    tl.send(&vc, "half");
                    let _ = victim.write_all(b"*2\r\n$3\r\nGE");
                    set_linger0(&victim);
                    tl.close(&vc);
                    drop(victim);
                }
                "handler-panic" => {
                    // the handler task itself panics while it serves this connection (at its next read)
                    tl.send(&vc, "boom");
                    PANIC_AT_CONN_READ.store(true, Ordering::SeqCst);
                    let _ = victim.write_all(&cmd(&[b"GET", b"k"]));
                    let (_, e) = read_some(&mut victim, 1, slow);
                    steps.push(json!({"step": "panic-closed-by-server", "ended": e}));
                    PANIC_AT_CONN_READ.store(false, Ordering::SeqCst);
                    tl.close(&vc);
                    drop(victim);
                }
                "malformed" | "garbage" | "garbage-binary" | "panic" | "store-error" => {
                    let (bytes, kind, step): (Vec<u8>, &str, &str) = match ending.as_str() {
                        "malformed" => (b"*1\r\n$4\r\nNOPE\r\n".to_vec(), "bad", "malformed-closed-by-server"),
                        "garbage" => (b"!!!\r\n".to_vec(), "bad", "garbage-closed-by-server"),
                        // 300 bytes that are not RESP and not UTF-8 (a TLS hello, say), no line break
                        "garbage-binary" => ((0..300u32).map(|i| if i % 3 == 0 { 0x16 } else { 0x80 + (i * 7 % 0x7f) as u8 }).collect(), "bad", "garbage-closed-by-server"),
                        "panic" => (cmd(&[b"GET", b"boom"]), "boom", "panic-closed-by-server"),
                        _ => (cmd(&[b"GET", b"fail"]), "boom", "error-closed-by-server"),
                    };
                    tl.send(&vc, kind);
                    let _ = victim.write_all(&bytes);
                    let (_, e) = read_some(&mut victim, 1, slow);
                    steps.push(json!({"step": step, "ended": e}));
                    tl.close(&vc);
                    drop(victim);
                }
                e => panic!("ending {e}"),
            }
            // now the waiting client gets its slot
            let late = if early { true } else { let (b, e) = read_reply_bytes(&mut extra, 1, slow); e == "ok" && !b.is_empty() };
            steps.push(json!({"step": "extra-after-free", "ending": ending, "served": late}));
            if ending == "accept-error" {
                steps.push(json!({"step": "accept-failures-consumed", "left": bcverif::shim::accept_failures_left()}));
                bcverif::shim::fail_next_accepts(0, 0, None);
            }
            held.push((extra, extra_c));
            // and the limit still holds: yet another client must wait
            let (mut over, oc) = tl.connect(srv.addr).expect("connect");
            let over_served = served_tl(&mut tl, &oc, &mut over, quick);
            steps.push(json!({"step": "over-limit", "ending": ending, "served": over_served}));
            tl.close(&oc);
            drop(over);
            std::thread::sleep(Duration::from_millis(20));
        }
        // finally: everybody leaves, then the full number can be served concurrently again
        for (s, c) in held.drain(..) {
            tl.close(&c);
            drop(s);
        }
        std::thread::sleep(Duration::from_millis(50));
        let mut again: Vec<(TcpStream, String)> = vec![];
        let mut all_served = true;
        for _ in 0..max {
            let (mut s, c) = tl.connect(srv.addr).expect("connect");
            all_served &= served_tl(&mut tl, &c, &mut s, slow);
            again.push((s, c));
        }
        steps.push(json!({"step": "refill", "served": all_served}));
        let (mut over, oc) = tl.connect(srv.addr).expect("connect");
        steps.push(json!({"step": "over-limit-final", "served": served_tl(&mut tl, &oc, &mut over, quick)}));
        tl.close(&oc);
        drop(over);
        for (s, c) in again.drain(..) {
            tl.close(&c);
            drop(s);
        }
        std::thread::sleep(Duration::from_millis(80));
        let hooks = take_events();
        srv.stop();
        pend.clear();
        out.emit(&json!({"ev": "limit", "max": max, "endings": endings, "steps": steps, "timeline": tl.merged(&hooks),
                         "hooks": hooks.iter().filter(|e| e["name"] != "conn.read" && e["name"] != "conn.eof").cloned().collect::<Vec<_>>()}));
        n += 1;
    }
    n
}

// ---------------------------------------------------------------------------------------
// shutdown: the signal fires relative to each connection's state (C16)

fn shutdown_mode(inputs: &[Value], _seed: u64, si: usize, sn: usize, out: &mut TraceOut, pend: &Pending) -> u64 {
    let mut n = 0;
    for (i, inp) in inputs.iter().enumerate() {
        if i % sn != si {
            continue;
        }
        let states: Vec<String> = inp["states"].as_array().unwrap().iter().map(|x| x.as_str().unwrap().to_string()).collect();
        pend.set(&json!({"ev": "shutdown", "states": states, "phase": "run"}));
        let _ = take_events();
        let store = StubStore::default();
        *GATE.lock().unwrap() = (false, false);
        // max_connections: plenty, or exactly the number of clients (the listener then waits for a permit)
        let maxc = inp["max"].as_u64().unwrap_or(16) as usize;
        let mut srv = start_server(store.clone(), maxc);
        let mut tl = Timeline::default();
        let mut clients: Vec<(String, TcpStream, Vec<u8>, usize)> = vec![]; // state, socket, received so far, acked sets
        let mut cnames: Vec<String> = vec![];
        let big = vec![b'x'; 6 * 1024 * 1024];
        let mut gate_used = false;
        for (ci, st) in states.iter().enumerate() {
            let (mut s, cname) = tl.connect(srv.addr).expect("connect");
            cnames.push(cname.clone());
            let key = format!("k{ci}").into_bytes();
            // every client first does one acknowledged SET (must be in the store afterwards)
            tl.send(&cname, "set");
            let _ = s.write_all(&cmd(&[b"SET", &key, b"acked"]));
            let (mut recv, _) = read_reply_bytes(&mut s, 1, Duration::from_secs(3));
            let acked = count_replies(&recv);
            match st.as_str() {
                "idle" => {}
                "mid-frame" => {
                    let before = count_events("conn.read");
                    tl.send(&cname, "half");
                    let _ = s.write_all(b"*3\r\n$3\r\nSET\r\n$2\r\nzz\r\n$5\r\nab");
                    wait_events("conn.read", before, Duration::from_millis(500));
                }
                "pipelined-partial" => {
                    // a complete request and the beginning of the next one in ONE segment
                    let mut seg = cmd(&[b"GET", &key]);
                    seg.extend_from_slice(b"*2\r\n$3\r\nGET\r\n$2\r\nz");
                    tl.send(&cname, "get");
                    tl.send(&cname, "half");
                    let _ = s.write_all(&seg);
                    let (b, _) = read_reply_bytes(&mut s, 1, Duration::from_secs(3));
                    recv.extend(b);
                }
                "pipelined-partial-big" => {
                    // the same with a reply larger than the server's write buffer
                    let mid = vec![b'y'; 20000];
                    tl.send(&cname, "set");
                    let _ = s.write_all(&cmd(&[b"SET", b"mid", &mid]));
                    let (b, _) = read_reply_bytes(&mut s, 1, Duration::from_secs(3));
                    recv.extend(b);
                    let mut seg = cmd(&[b"GET", b"mid"]);
                    seg.extend_from_slice(b"*2\r\n$3\r\nGET\r\n$2\r\nz");
                    tl.send(&cname, "get");
                    tl.send(&cname, "half");
                    let _ = s.write_all(&seg);
                    let (b, _) = read_reply_bytes(&mut s, 1, Duration::from_millis(600));
                    recv.extend(b);
                }
                "mid-command" | "mid-command-long" => {
                    GATE_ARMED.store(true, Ordering::SeqCst);
                    gate_used = true;
                    tl.send(&cname, "get");
                    let _ = s.write_all(&cmd(&[b"GET", b"gate"]));
                    // wait until the store call is really executing on the blocking pool
                    let g = GATE.lock().unwrap();
                    let _ = GATECV.wait_timeout_while(g, Duration::from_secs(3), |g| !g.0).unwrap();
                }
                "writing-reply" => {
                    // a large value whose reply the client does not read before the signal
                    tl.send(&cname, "set");
                    let _ = s.write_all(&cmd(&[b"SET", b"big", &big]));
                    let (b, _) = read_reply_bytes(&mut s, 1, Duration::from_secs(5));
                    recv.extend(b);
                    tl.send(&cname, "get");
                    let _ = s.write_all(&cmd(&[b"GET", b"big"]));
                    std::thread::sleep(Duration::from_millis(60));
                }
                o => panic!("state {o}"),
            }
            clients.push((st.clone(), s, recv, acked));
        }
        // fire
        let t0 = Instant::now();
        tl.fire();
        if let Some(f) = srv.fire.take() {
            let _ = f.send(());
        }
        // a command in flight finishes after the signal
        if gate_used {
            // (long: the command outlasts every back-off / retry limit of the configuration, 100 ms here)
            let long = states.iter().any(|s| s == "mid-command-long");
            std::thread::sleep(Duration::from_millis(if long { 450 } else { 40 }));
            let mut g = GATE.lock().unwrap();
            g.1 = true;
            GATECV.notify_all();
            drop(g);
            GATE_ARMED.store(false, Ordering::SeqCst);
        }
        // clients drain their sockets to end-of-stream (the assumption under which run() must return)
        let mut cl_out = vec![];
        let mut handles = vec![];
        for (st, mut s, recv, acked) in clients {
            handles.push(std::thread::spawn(move || {
                let mut recv = recv;
                let (b, e) = read_some(&mut s, usize::MAX, Duration::from_secs(6));
                recv.extend(b);
                (st, recv, e, acked)
            }));
        }
        let ret = srv.wait_returned(t0, Duration::from_secs(5));
        for h in handles {
            let (st, recv, e, acked) = h.join().unwrap();
            let (nrep, used) = split_replies(&recv);
            cl_out.push(json!({"state": st, "ended": e, "replies": nrep, "bytes": recv.len(), "trailing": recv.len() - used,
                               "head": bj(&recv[..recv.len().min(64)]), "acked_sets": acked}));
        }
        let final_store: Vec<Value> = (0..states.len())
            .map(|ci| {
                let k = format!("k{ci}").into_bytes();
                match store.map.lock().unwrap().get(&k) {
                    Some(v) => json!({"k": bj(&k), "v": bj(v)}),
                    None => json!({"k": bj(&k), "absent": true}),
                }
            })
            .collect();
        for c in &cnames {
            tl.close(c);
        }
        let hooks = take_events();
        srv.stop();
        pend.clear();
        out.emit(&json!({"ev": "shutdown", "states": states, "max": maxc, "timeline": tl.merged(&hooks), "returned": ret.is_some(), "return_ms": ret.map(|d| d.as_millis() as i64).unwrap_or(-1),
                         "clients": cl_out, "store": final_store,
                         "hooks": hooks.iter().filter(|e| e["name"].as_str().unwrap_or("").starts_with("srv.")).cloned().collect::<Vec<_>>()}));
        n += 1;
    }
    n
}

// ---------------------------------------------------------------------------------------
// lin: concurrent clients on separate connections; invocation/response history (C11)

fn lin_mode(inputs: &[Value], seed: u64, si: usize, sn: usize, out: &mut TraceOut, pend: &Pending) -> u64 {
    let mut n = 0;
    for (i, inp) in inputs.iter().enumerate() {
        if i % sn != si {
            continue;
        }
        if inp["kind"].as_str() == Some("fault-vs-get") {
            // One client's SET / DEL of an existing key meets an I/O error in the store and the writer is HELD at the
            // failing call; another client GETs the key meanwhile and again afterwards.  The failed command may or may
            // not have taken effect - once, not for one reader and then not any more.
            let op = inp["op"].as_str().unwrap_or("del").to_string();
            let nth = inp["nth"].as_u64().unwrap_or(0);
            pend.set(&json!({"ev": "lin", "phase": "run", "input": inp}));
            let sc = Scratch::new("net");
            bcverif::shim::start(sc.path(), false);
            let kv = open_real_store(sc.path(), inp["max_file"].as_u64().unwrap_or(1_000_000));
            let h = kv.get_handle();
            let srv = start_server(h.clone(), 8);
            let hseq = AtomicU64::new(0);
            let mut ops: Vec<Value> = vec![];
            let logical = |b: &[u8]| -> String {
                if b == b"+OK\r\n" { "OK".into() } else if b == b"$-1\r\n" { "none".into() }
                else if b.first() == Some(&b':') && b.ends_with(b"\r\n") { String::from_utf8_lossy(&b[1..b.len() - 2]).to_string() }
                else if b.first() == Some(&b'$') && b.ends_with(b"\r\n") {
                    match b.windows(2).position(|w| w == b"\r\n") { Some(p) => String::from_utf8_lossy(&b[p + 2..b.len() - 2]).to_string(), None => "?".into() }
                } else { format!("?{}", String::from_utf8_lossy(b)) }
            };
            let mut call = |c: usize, s: &mut TcpStream, opn: &str, req: Vec<u8>, v: &str, ops: &mut Vec<Value>| {
                let inv = hseq.fetch_add(1, Ordering::SeqCst);
                let ok = s.write_all(&req).is_ok();
                let (b, e) = if ok { read_reply_bytes(s, 1, Duration::from_secs(5)) } else { (vec![], "send-failed") };
                let ret = hseq.fetch_add(1, Ordering::SeqCst);
                ops.push(json!({"c": c, "op": opn, "k": "key0", "v": v, "inv": inv, "ret": ret, "res": logical(&b), "ending": e}));
            };
            if let (Some(mut a), Some(mut b)) = (connect(srv.addr), connect(srv.addr)) {
                call(0, &mut a, "set", cmd(&[b"SET", b"key0", b"v1"]), "v1", &mut ops);
                let seen = bcverif::shim::mutating_seen();
                bcverif::shim::pause_at(seen + nth);
                bcverif::shim::fail_at(seen + nth, libc::EIO);
                // client A's failing command runs on its own thread (its reply, if any, comes after the release)
                let inv_a = hseq.fetch_add(1, Ordering::SeqCst);
                let req = if op == "del" { cmd(&[b"DEL", b"key0"]) } else { cmd(&[b"SET", b"key0", b"v2"]) };
                let mut a2 = a.try_clone().unwrap();
                let ta = std::thread::spawn(move || {
                    let ok = a2.write_all(&req).is_ok();
                    if ok { read_reply_bytes(&mut a2, 1, Duration::from_secs(5)) } else { (vec![], "send-failed") }
                });
                let paused = bcverif::shim::wait_paused(Duration::from_secs(3));
                call(1, &mut b, "get", cmd(&[b"GET", b"key0"]), "-", &mut ops);
                bcverif::shim::release();
                let (rb, re) = ta.join().unwrap_or((vec![], "panic"));
                let ret_a = hseq.fetch_add(1, Ordering::SeqCst);
                ops.push(json!({"c": 0, "op": op, "k": "key0", "v": if op == "del" { "-" } else { "v2" }, "inv": inv_a, "ret": ret_a,
                                "res": logical(&rb), "ending": re}));
                for _ in 0..2 {
                    call(1, &mut b, "get", cmd(&[b"GET", b"key0"]), "-", &mut ops);
                }
                let _ = paused;
            }
            bcverif::shim::stop();
            out.emit(&json!({"ev": "lin", "run": i, "window": 0, "clients": 2, "init": [{"k": "key0", "v": "none"}], "ops": ops}));
            n += 1;
            srv.stop();
            drop(kv);
            pend.clear();
            continue;
        }
        let clients = inp["clients"].as_u64().unwrap_or(3) as usize;
        let nops = inp["ops"].as_u64().unwrap_or(8) as usize;
        let nkeys = inp["keys"].as_u64().unwrap_or(2) as usize;
        let windows = inp["windows"].as_u64().unwrap_or(4) as usize;
        let delay = inp["delay_us"].as_u64().unwrap_or(300);
        let merger = inp["merger"].as_bool().unwrap_or(true);
        // exact: every entry has the same size and the file size is a multiple of it (exact-fit rollovers)
        let exact = inp["exact"].as_bool().unwrap_or(false);
        // clock: the wall clock is stepped back further and further between windows
        let clock = inp["clock"].as_bool().unwrap_or(false);
        pend.set(&json!({"ev": "lin", "phase": "run", "input": inp}));
        let sc = Scratch::new("net");
        let kv = open_real_store(sc.path(), if exact { 160 } else { 90 });
        let h = kv.get_handle();
        let srv = start_server(h.clone(), 32);
        DELAY_US.store(delay, Ordering::SeqCst);
        DELAY_RNG.store(seed.wrapping_mul(2654435761).wrapping_add(i as u64) | 1, Ordering::SeqCst);
        let hseq = Arc::new(AtomicU64::new(0));
        let stop = Arc::new(AtomicBool::new(false));
        let mh = if merger {
            let (h2, stop2) = (h.clone(), stop.clone());
            Some(std::thread::spawn(move || {
                while !stop2.load(Ordering::SeqCst) {
                    let _ = h2.verif_merge();
                    std::thread::sleep(Duration::from_millis(2));
                }
            }))
        } else {
            None
        };
        for w in 0..windows {
            if clock && w % 2 == 1 {
                bcverif::shim::set_clock_skew(-3600 * (w as i64 + 1));
            }
            // every window is a quiescent-to-quiescent history judged on its own; it starts from
            // what the previous ones left, which is read through a Handle
            let keys: Vec<Vec<u8>> = (0..nkeys).map(|k| format!("key{k}").into_bytes()).collect();
            let init = store_contents(&h, &keys);
            let barrier = Arc::new(std::sync::Barrier::new(clients));
            let mut ths = vec![];
            for c in 0..clients {
                let (addr, hseq, barrier, keys) = (srv.addr, hseq.clone(), barrier.clone(), keys.clone());
                let mut rng = Rng::new(seed.wrapping_add((i * 1000 + w * 37 + c) as u64));
                ths.push(std::thread::spawn(move || {
                    let mut evs: Vec<Value> = vec![];
                    let mut s = match connect(addr) {
                        Some(s) => s,
                        None => return evs,
                    };
                    barrier.wait();
                    for o in 0..nops {
                        let k = rng.pick(&keys).clone();
                        let r = rng.below(10);
                        // values are unique per writer so that a read identifies its write
                        let (op, req, val) = if r < 4 || (exact && r >= 8) {
                            let mut v = format!("c{c}w{w}o{o}").into_bytes();
                            if exact {
                                v.resize(11, b'_');
                            }
                            ("set", cmd(&[b"SET", &k, &v]), Some(v))
                        } else if r < 8 {
                            ("get", cmd(&[b"GET", &k]), None)
                        } else {
                            ("del", cmd(&[b"DEL", &k]), None)
                        };
                        let inv = hseq.fetch_add(1, Ordering::SeqCst);
                        let ok = s.write_all(&req).is_ok();
                        let (b, e) = if ok { read_reply_bytes(&mut s, 1, Duration::from_secs(5)) } else { (vec![], "send-failed") };
                        let ret = hseq.fetch_add(1, Ordering::SeqCst);
                        // the logical result: "OK", the value, "none", "0"/"1", or "?" + raw text
                        let res = if b == b"+OK\r\n" {
                            "OK".to_string()
                        } else if b == b"$-1\r\n" {
                            "none".to_string()
                        } else if b.first() == Some(&b':') && b.ends_with(b"\r\n") {
                            String::from_utf8_lossy(&b[1..b.len() - 2]).to_string()
                        } else if b.first() == Some(&b'$') && b.ends_with(b"\r\n") {
                            match b.windows(2).position(|w| w == b"\r\n") {
                                Some(p) => String::from_utf8_lossy(&b[p + 2..b.len() - 2]).to_string(),
                                None => format!("?{}", String::from_utf8_lossy(&b)),
                            }
                        } else {
                            format!("?{}", String::from_utf8_lossy(&b))
                        };
                        evs.push(json!({"c": c, "op": op, "k": String::from_utf8_lossy(&k),
                                        "v": val.map(|v| String::from_utf8_lossy(&v).to_string()).unwrap_or_else(|| "-".into()),
                                        "inv": inv, "ret": ret, "res": res, "ending": e}));
                        if e != "ok" {
                            break;
                        }
                    }
                    evs
                }));
            }
            let mut ops: Vec<Value> = vec![];
            for t in ths {
                ops.extend(t.join().unwrap());
            }
            out.emit(&json!({"ev": "lin", "run": i, "window": w, "clients": clients,
                             "init": init.as_array().unwrap().iter().map(|x| json!({"k": String::from_utf8_lossy(&jb(&x["k"])),
                                        "v": if x.get("v").is_none() { json!("none") } else { json!(String::from_utf8_lossy(&jb(&x["v"]))) }})).collect::<Vec<_>>(),
                             "ops": ops}));
            n += 1;
        }
        stop.store(true, Ordering::SeqCst);
        if let Some(m) = mh {
            let _ = m.join();
        }
        DELAY_US.store(0, Ordering::SeqCst);
        bcverif::shim::set_clock_skew(0);
        srv.stop();
        drop(kv);
        pend.clear();
    }
    n
}

fn main() {
    bcverif::shim::init();
    quiet_panics();
    let args: Vec<String> = std::env::args().collect();
    if args.len() < 4 {
        eprintln!("usage: netdrive kv|hostile|limit|shutdown|lin <inputs.jsonl> <out-prefix> --shard i/n [--seed N]");
        std::process::exit(2);
    }
    let seed: u64 = arg_val(&args, "--seed").and_then(|s| s.parse().ok()).unwrap_or(1);
    let shard = arg_val(&args, "--shard").unwrap_or_else(|| "0/1".into());
    let (si, sn): (usize, usize) = {
        let mut it = shard.split('/');
        (it.next().unwrap().parse().unwrap(), it.next().unwrap().parse().unwrap())
    };
    let text = fs::read_to_string(&args[2]).expect("inputs file");
    let inputs: Vec<Value> = text.lines().filter(|l| !l.trim().is_empty()).map(|l| serde_json::from_str(l).expect("json")).collect();
    let prefix = PathBuf::from(&args[3]);
    let path = PathBuf::from(format!("{}.{}.ndjson", prefix.display(), si));
    let pend = Pending::new(PathBuf::from(format!("{}.{}.pending", prefix.display(), si)));
    let mut out = TraceOut::create(&path);
    out.emit(&json!({"ev": "header", "mode": args[1]}));
    install_hooks();
    // watchdog: a scenario that makes no progress for 90 s is recorded as a hang (the pending note
    // is still in place, the orchestrator turns it into the outcome of that scenario)
    {
        let path = pend.0.clone();
        std::thread::spawn(move || {
            let mut last = (std::time::SystemTime::UNIX_EPOCH, 0u64);
            let mut since = Instant::now();
            loop {
                std::thread::sleep(Duration::from_secs(2));
                let cur = fs::metadata(&path).map(|m| (m.modified().unwrap_or(std::time::SystemTime::UNIX_EPOCH), m.len())).unwrap_or(last);
                if cur != last {
                    last = cur;
                    since = Instant::now();
                } else if cur.1 > 0 && since.elapsed() > Duration::from_secs(90) {
                    eprintln!("watchdog: scenario hung for 90 s");
                    std::process::abort();
                }
            }
        });
    }
    let n = match args[1].as_str() {
        "kv" => kv_mode(&inputs, seed, si, sn, &mut out, &pend),
        "hostile" => hostile_mode(&inputs, seed, si, sn, &mut out, &pend),
        "limit" => limit_mode(&inputs, seed, si, sn, &mut out, &pend),
        "shutdown" => shutdown_mode(&inputs, seed, si, sn, &mut out, &pend),
        "lin" => lin_mode(&inputs, seed, si, sn, &mut out, &pend),
        m => panic!("mode {m}"),
    };
    let l = out.finish();
    pend.clear();
    let _ = fs::remove_file(&pend.0);
    println!("{}", json!({"file": path.display().to_string(), "runs": n, "lines": l}));
    // do not wait for forgotten sockets / runtimes
    std::process::exit(0);
}
