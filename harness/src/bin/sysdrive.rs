//! Life cycle, background policy and concurrency driver (C17 C18 C04).
//!
//!   sysdrive close|bg|conc <inputs.jsonl> <out-prefix> --shard i/n [--seed N]
//!
//! close: drop the store relative to background activity, then use the remaining handle;
//!        thread / descriptor accounting over open-close cycles.
//! bg   : real timers (100-300 ms): does a merge start / not start, which file is fsynced when.
//! conc : forced schedules through the hook points and the shim (writer paused between the two
//!        write calls of a large entry; a get parked between lookup and read while a merge runs)
//!        and a multi-thread stress whose invocation/response history goes to TraceLin.tla.

use std::{
    collections::BTreeMap,
    fs,
    path::{Path, PathBuf},
    sync::{
        atomic::{AtomicBool, AtomicU64, Ordering},
        Arc, Condvar, Mutex,
    },
    time::{Duration, Instant},
};

use bcverif::*;
use bitcask::storage::{
    bitcask::{Bitcask, Config, Handle},
    KeyValueStorage,
};
use bytes::Bytes;
use serde_json::{json, Value};

fn arg_val(args: &[String], name: &str) -> Option<String> {
    args.iter().position(|a| a == name).and_then(|i| args.get(i + 1).cloned())
}

struct Pending(PathBuf, fs::File);
impl Pending {
    fn new(p: PathBuf) -> Pending {
        let f = fs::File::create(&p).expect("pending file");
        Pending(p, f)
    }
    fn set(&self, v: &Value) {
        use std::os::unix::fs::FileExt;
        let b = serde_json::to_vec(v).unwrap();
        let _ = self.1.write_all_at(&b, 0);
        let _ = self.1.set_len(b.len() as u64);
    }
    fn clear(&self) {
        let _ = self.1.set_len(0);
    }
}

// ---------------------------------------------------------------------------------------
// hook plumbing: timestamps of named points, parking a thread at a point, random delays

static T0: Mutex<Option<Instant>> = Mutex::new(None);
static POINTS: Mutex<Vec<(u64, &'static str)>> = Mutex::new(Vec::new()); // (ms since T0, name)
static PARK: Mutex<(Option<&'static str>, bool, bool)> = Mutex::new((None, false, false)); // (point, parked, released)
/// park only at the n-th time the armed point is reached (1 = first)
static PARK_SKIP: AtomicU64 = AtomicU64::new(0);
static PARKCV: Condvar = Condvar::new();
/// park EVERY thread that reaches a point until `limit` of them are there and the driver releases them together
static MULTI: Mutex<(Option<&'static str>, usize, usize, bool)> = Mutex::new((None, 0, 0, false)); // (point, limit, parked, released)
static MULTICV: Condvar = Condvar::new();
static DELAY_US: AtomicU64 = AtomicU64::new(0);
static DELAY_RNG: AtomicU64 = AtomicU64::new(0x9E3779B9);

// ---------------------------------------------------------------------------------------
// Deterministic scheduler for the `sched` mode: controlled threads park at their control points
// (hook points, gated system calls, operation boundaries); the controller releases one thread for
// one step at a time, following a behaviour TLC generated from BitcaskConc.tla.

#[derive(Clone, Default)]
struct TState {
    at: String, // "" = running, otherwise the control point the thread is parked at
    release: bool,
    done: bool,
    first_create_pending: bool, // merger: park at the first create of a merge only
}
static SCHED: Mutex<Vec<TState>> = Mutex::new(Vec::new());
static SCHEDCV: Condvar = Condvar::new();
static SCHED_ON: AtomicBool = AtomicBool::new(false);
thread_local! {
    static ROLE: std::cell::Cell<Option<usize>> = const { std::cell::Cell::new(None) };
}
const ROLE_W: usize = 0;
const ROLE_M: usize = 1;
// readers are 2, 3, ...

/// park the calling (controlled) thread at `label` until the controller releases it
fn park(label: &str) {
    let Some(role) = ROLE.with(|r| r.get()) else { return };
    if !SCHED_ON.load(Ordering::SeqCst) {
        return;
    }
    let mut g = SCHED.lock().unwrap();
    g[role].at = label.to_string();
    g[role].release = false;
    SCHEDCV.notify_all();
    while !g[role].release && SCHED_ON.load(Ordering::SeqCst) {
        let (g2, _) = SCHEDCV.wait_timeout(g, Duration::from_millis(50)).unwrap();
        g = g2;
    }
    g[role].at.clear();
    SCHEDCV.notify_all();
}

fn sched_hook(name: &'static str) {
    let Some(role) = ROLE.with(|r| r.get()) else { return };
    let stop = match role {
        ROLE_W => matches!(name, "put.publishing" | "del.publishing"),
        ROLE_M => name == "merge.copied" || name == "merge.unlinking",
        _ => matches!(name, "get.popped" | "get.looked_up" | "reader.mapped"),
    };
    if stop {
        park(name);
    }
}

fn sched_syscall(kind: &'static str, file: &str) {
    let Some(role) = ROLE.with(|r| r.get()) else { return };
    if !SCHED_ON.load(Ordering::SeqCst) {
        return;
    }
    match role {
        ROLE_W if kind == "write" && file.ends_with(".data") => park("sys:write"),
        ROLE_M if kind == "write" && file.ends_with(".hint") => park("sys:hintwrite"),
        ROLE_M if kind == "create" => {
            let first = {
                let mut g = SCHED.lock().unwrap();
                std::mem::replace(&mut g[ROLE_M].first_create_pending, false)
            };
            if first {
                park("sys:create");
            }
        }
        _ => {}
    }
}

/// release `role` for one step; returns where it parked next ("done", a label, or "blocked")
fn step(role: usize, expect: &[&str], timeout: Duration) -> String {
    let mut g = SCHED.lock().unwrap();
    // the thread must be parked at a compatible point
    let t0 = Instant::now();
    while g[role].at.is_empty() && !g[role].done {
        if t0.elapsed() > timeout {
            return "not-parked".into();
        }
        let (g2, _) = SCHEDCV.wait_timeout(g, Duration::from_millis(5)).unwrap();
        g = g2;
    }
    if g[role].done {
        return "already-done".into();
    }
    if !expect.iter().any(|e| g[role].at == *e || (e.ends_with('*') && g[role].at.ends_with(&e[1..]))) {
        return format!("mismatch:{}", g[role].at);
    }
    g[role].release = true;
    SCHEDCV.notify_all();
    // wait until it has left the point ...
    let t0 = Instant::now();
    while !g[role].at.is_empty() && g[role].release {
        let (g2, _) = SCHEDCV.wait_timeout(g, Duration::from_millis(5)).unwrap();
        g = g2;
        if t0.elapsed() > timeout {
            break;
        }
    }
    // ... and parked again (or finished)
    let t0 = Instant::now();
    loop {
        if g[role].done {
            return "done".into();
        }
        if !g[role].at.is_empty() && !g[role].release {
            return g[role].at.clone();
        }
        if t0.elapsed() > timeout {
            return "blocked".into();
        }
        let (g2, _) = SCHEDCV.wait_timeout(g, Duration::from_millis(5)).unwrap();
        g = g2;
    }
}

fn now_ms() -> u64 {
    T0.lock().unwrap().map(|t| t.elapsed().as_millis() as u64).unwrap_or(0)
}
fn reset_clock() {
    *T0.lock().unwrap() = Some(Instant::now());
    POINTS.lock().unwrap().clear();
}
/// fsync calls on the watched directory with the time they were issued (gate callback of the shim)
static FSYNCS: Mutex<Vec<(u64, String)>> = Mutex::new(Vec::new());
fn fsync_gate(kind: &'static str, file: &str) {
    if kind == "fsync" {
        let t = now_ms();
        FSYNCS.lock().unwrap().push((t, file.to_string()));
    }
}
fn fsyncs_json() -> Value {
    json!(FSYNCS.lock().unwrap().iter().map(|(t, f)| json!({"t": t, "file": f, "id": f.split('.').next().and_then(|x| x.parse::<i64>().ok()).unwrap_or(-1),
                                                            "data": f.ends_with(".bitcask.data")})).collect::<Vec<_>>())
}

/// a driver event in the same ordered log as the hook points (the life-cycle timeline)
fn mark(name: &'static str) {
    let t = now_ms();
    POINTS.lock().unwrap().push((t, name));
}
/// the ordered log of background hook points and driver marks, and the configuration Lifecycle.tla needs
fn life_timeline(ev: &mut Value, cfgv: &Value) {
    let tl: Vec<Value> = POINTS.lock().unwrap().iter().map(|(t, n)| json!({"name": n, "ms": t})).collect();
    let policy = match cfgv.get("merge").and_then(|m| m.get("policy")) {
        Some(Value::String(s)) => s.clone(),
        Some(Value::Object(_)) => "window".to_string(),
        _ => "never".to_string(),
    };
    let sync = cfgv.get("sync").map(|s| s.is_object()).unwrap_or(false);
    ev["life"] = json!(tl);
    ev["life_cfg"] = json!({"policy": policy, "sync": sync});
}
/// drop the store, wait for its worker, record the timeline
fn end_life(kv: Bitcask, ev: &mut Value, cfgv: &Value) {
    mark("drv.drop");
    drop(kv);
    mark("drv.dropped");
    wait_until(|| bg_threads() == 0, Duration::from_secs(2));
    life_timeline(ev, cfgv);
}
fn points(name: &str) -> Vec<u64> {
    POINTS.lock().unwrap().iter().filter(|p| p.1 == name).map(|p| p.0).collect()
}

fn install_hooks() {
    bitcask::verif::set_callback(Some(Arc::new(|name, _fields| {
        sched_hook(name);
        if matches!(name, "merge.selected" | "bg.merge.woke" | "bg.merge.triggered" | "bg.sync.woke" | "bg.exit") {
            let t = now_ms();
            let mut g = POINTS.lock().unwrap();
            if g.len() < 100_000 {
                g.push((t, name));
            }
        }
        {
            let mut g = MULTI.lock().unwrap();
            if g.0 == Some(name) && g.2 < g.1 && !g.3 {
                g.2 += 1;
                MULTICV.notify_all();
                while !g.3 {
                    g = MULTICV.wait(g).unwrap();
                }
            }
        }
        // park the thread that reaches the armed point
        {
            let mut g = PARK.lock().unwrap();
            if g.0 == Some(name) && !g.1 && PARK_SKIP.fetch_update(Ordering::SeqCst, Ordering::SeqCst, |x| if x > 0 { Some(x - 1) } else { None }).is_err() {
                g.1 = true;
                PARKCV.notify_all();
                while !g.2 {
                    g = PARKCV.wait(g).unwrap();
                }
                g.0 = None;
            }
        }
        let d = DELAY_US.load(Ordering::Relaxed);
        if d > 0 && matches!(name, "put.publishing" | "del.publishing" | "write.appended" | "get.looked_up" | "get.popped" | "merge.copied" | "reader.mapped") {
            let mut x = DELAY_RNG.load(Ordering::Relaxed);
            x ^= x << 13;
            x ^= x >> 7;
            x ^= x << 17;
            DELAY_RNG.store(x, Ordering::Relaxed);
            match x % 5 {
                0 => std::thread::sleep(Duration::from_micros(x % d)),
                1 | 2 => std::thread::yield_now(),
                _ => {}
            }
        }
    })));
}

fn arm(point: &'static str) {
    PARK_SKIP.store(0, Ordering::SeqCst);
    *PARK.lock().unwrap() = (Some(point), false, false);
}
fn arm_nth(point: &'static str, n: u64) {
    PARK_SKIP.store(n.saturating_sub(1), Ordering::SeqCst);
    *PARK.lock().unwrap() = (Some(point), false, false);
}
fn wait_parked(timeout: Duration) -> bool {
    let g = PARK.lock().unwrap();
    let (g, r) = PARKCV.wait_timeout_while(g, timeout, |g| !g.1).unwrap();
    drop(g);
    !r.timed_out()
}
fn release() {
    let mut g = PARK.lock().unwrap();
    g.2 = true;
    PARKCV.notify_all();
}
fn disarm() {
    let mut g = PARK.lock().unwrap();
    g.2 = true;
    g.0 = None;
    PARKCV.notify_all();
    drop(g);
    multi_release();
}
fn multi_arm(point: &'static str, limit: usize) {
    *MULTI.lock().unwrap() = (Some(point), limit, 0, false);
}
fn multi_wait(limit: usize, timeout: Duration) -> bool {
    let g = MULTI.lock().unwrap();
    let (g, r) = MULTICV.wait_timeout_while(g, timeout, |g| g.2 < limit).unwrap();
    drop(g);
    !r.timed_out()
}
fn multi_release() {
    let mut g = MULTI.lock().unwrap();
    g.3 = true;
    g.0 = None;
    MULTICV.notify_all();
}

// ---------------------------------------------------------------------------------------

fn make_config(dir: &Path, v: &Value) -> Config {
    let mut c = json!({
        "path": dir, "concurrency": 2, "readers_cache_size": 8, "max_file_size": 1_000_000u64, "sync": "none",
        "merge": {"policy": "never", "check_interval_ms": 3_600_000u64, "check_jitter": 0.0,
                  "triggers": {"fragmentation": 0.6, "dead_bytes": 1_000_000_000u64},
                  "thresholds": {"fragmentation": 0.4, "dead_bytes": 1_000_000_000u64, "small_file": 0}}
    });
    fn merge(a: &mut Value, b: &Value) {
        match (a, b) {
            (Value::Object(a), Value::Object(b)) => {
                for (k, v) in b {
                    merge(a.entry(k.clone()).or_insert(Value::Null), v);
                }
            }
            (a, b) => *a = b.clone(),
        }
    }
    merge(&mut c, v);
    serde_json::from_value(c).expect("config")
}

fn bg_threads() -> usize {
    let mut n = 0;
    if let Ok(rd) = fs::read_dir("/proc/self/task") {
        for e in rd.flatten() {
            if let Ok(c) = fs::read_to_string(e.path().join("comm")) {
                if c.trim().starts_with("bitcask-backgro") {
                    n += 1;
                }
            }
        }
    }
    n
}
fn all_threads() -> usize {
    fs::read_dir("/proc/self/task").map(|r| r.count()).unwrap_or(0)
}
/// threads of the driver itself (main, watchdog), measured before the first store is opened
static BASE_THREADS: AtomicU64 = AtomicU64::new(0);
/// No worker of an earlier store may still be around (its hook points would land in the next scenario's log).
/// A worker that was spawned but has not run yet still carries its parent's name, so besides the named workers
/// the total number of threads has to be back at the driver's own.
fn quiesce() {
    let base = BASE_THREADS.load(Ordering::SeqCst) as usize;
    wait_until(|| bg_threads() == 0 && (base == 0 || all_threads() <= base), Duration::from_secs(5));
}
fn fds_into(dir: &Path) -> usize {
    let mut n = 0;
    if let Ok(rd) = fs::read_dir("/proc/self/fd") {
        for e in rd.flatten() {
            if let Ok(t) = fs::read_link(e.path()) {
                if t.starts_with(dir) || t.to_string_lossy().contains(&*dir.to_string_lossy()) {
                    n += 1;
                }
            }
        }
    }
    n
}
fn all_fds() -> usize {
    fs::read_dir("/proc/self/fd").map(|r| r.count()).unwrap_or(0)
}

fn wait_until(mut f: impl FnMut() -> bool, timeout: Duration) -> Option<u64> {
    let t = Instant::now();
    loop {
        if f() {
            return Some(t.elapsed().as_millis() as u64);
        }
        if t.elapsed() > timeout {
            return None;
        }
        std::thread::sleep(Duration::from_micros(300));
    }
}

fn res_str<T>(r: std::thread::Result<Result<T, bitcask::storage::bitcask::Error>>) -> String {
    match r {
        Ok(Ok(_)) => "ok".into(),
        Ok(Err(bitcask::storage::bitcask::Error::Closed)) => "closed".into(),
        Ok(Err(e)) => format!("err:{e}"),
        Err(_) => "panic".into(),
    }
}

/// every Handle method after the drop; must all be "closed"
fn use_closed_handle(h: &Handle) -> Value {
    let c = |f: &dyn Fn() -> String| f();
    json!({
        "set": c(&|| res_str(std::panic::catch_unwind(std::panic::AssertUnwindSafe(|| h.set(Bytes::from_static(b"after"), Bytes::from_static(b"x")))))),
        "get": c(&|| res_str(std::panic::catch_unwind(std::panic::AssertUnwindSafe(|| h.get(Bytes::from_static(b"k0")))))),
        "del": c(&|| res_str(std::panic::catch_unwind(std::panic::AssertUnwindSafe(|| h.del(Bytes::from_static(b"k0")))))),
        // keys that are not stored: never written, the empty key, one deleted before the close
        "get_absent": c(&|| res_str(std::panic::catch_unwind(std::panic::AssertUnwindSafe(|| h.get(Bytes::from_static(b"never-written")))))),
        "get_empty": c(&|| res_str(std::panic::catch_unwind(std::panic::AssertUnwindSafe(|| h.get(Bytes::new()))))),
        "get_deleted": c(&|| res_str(std::panic::catch_unwind(std::panic::AssertUnwindSafe(|| h.get(Bytes::from_static(b"gone")))))),
        "del_absent": c(&|| res_str(std::panic::catch_unwind(std::panic::AssertUnwindSafe(|| h.del(Bytes::from_static(b"never-written")))))),
        "merge": c(&|| res_str(std::panic::catch_unwind(std::panic::AssertUnwindSafe(|| h.verif_merge())))),
        "sync": c(&|| res_str(std::panic::catch_unwind(std::panic::AssertUnwindSafe(|| h.verif_sync())))),
    })
}

// ---------------------------------------------------------------------------------------
// close (C17)

fn close_mode(inputs: &[Value], si: usize, sn: usize, out: &mut TraceOut, pend: &Pending) -> u64 {
    let mut n = 0;
    for (i, inp) in inputs.iter().enumerate() {
        if i % sn != si {
            continue;
        }
        pend.set(&json!({"ev": "close", "input": inp, "phase": "run"}));
        let kind = inp["kind"].as_str().unwrap_or("idle").to_string();
        let sc = Scratch::new("life");
        let dir = sc.path().to_path_buf();
        // no worker of an earlier scenario (or of its reopen probe) may still be around: its hook points
        // would land in this scenario's log
        quiesce();
        reset_clock();
        disarm();
        let mut ev = json!({"ev": "close", "kind": kind, "input": inp});
        match kind.as_str() {
            // (idle-busy: as idle, but with timers so short that background work is in flight at any moment)
            "idle" | "idle-busy" | "at-point" | "writer-busy" => {
                let cfgv = inp.get("config").cloned().unwrap_or(json!({}));
                // no worker of an earlier scenario may still be around: "the worker is gone" below must
                // mean THIS store's worker (an operation it had in flight at the drop may finish first)
                quiesce();
                let base_bg = bg_threads();
                shim::start(&dir, false);
                let kv: Bitcask = make_config(&dir, &cfgv).open().expect("open");
                let h = kv.get_handle();
                for j in 0..6 {
                    let _ = h.set(Bytes::from(format!("k{}", j % 3)), Bytes::from(format!("v{j}")));
                }
                let _ = h.set(Bytes::from_static(b"gone"), Bytes::from_static(b"x"));
                let _ = h.del(Bytes::from_static(b"gone"));
                // the worker thread is named only once it runs
                wait_until(|| bg_threads() > base_bg, Duration::from_millis(500));
                let mut inflight: Option<std::thread::JoinHandle<String>> = None;
                let mut parked = true;
                if kind == "at-point" {
                    let point: &'static str = match inp["point"].as_str().unwrap_or("") {
                        "bg.merge.woke" => "bg.merge.woke",
                        "bg.merge.triggered" => "bg.merge.triggered",
                        "bg.sync.woke" => "bg.sync.woke",
                        "merge.selected" => "merge.selected",
                        p => panic!("point {p}"),
                    };
                    arm(point);
                    parked = wait_parked(Duration::from_secs(3));
                } else if kind == "writer-busy" {
                    // another thread sits inside the writer lock while the store is dropped
                    arm("write.appended");
                    let h2 = h.clone();
                    inflight = Some(std::thread::spawn(move || res_str(std::panic::catch_unwind(std::panic::AssertUnwindSafe(|| h2.set(Bytes::from_static(b"inflight"), Bytes::from_static(b"y")))))));
                    parked = wait_parked(Duration::from_secs(3));
                }
                ev["parked"] = json!(parked);
                // (wait_ms: the store stays open for a while first, so that the background tasks have been through
                // their checks - whatever they do when there is nothing to do - before the drop)
                if let Some(w) = inp["wait_ms"].as_u64() {
                    std::thread::sleep(Duration::from_millis(w));
                }
                let _ = shim::take_calls();
                // nothing that was not already in flight at the drop may change the directory afterwards
                let before_drop = snapshot(&dir);
                // the drop; a thread parked inside the store may keep locks, so drop from a helper thread
                let t_drop = Instant::now();
                mark("drv.drop");
                let dropper_tid = Arc::new(AtomicU64::new(0));
                let dt = dropper_tid.clone();
                let dropper = std::thread::spawn(move || {
                    dt.store(unsafe { libc::syscall(libc::SYS_gettid) } as u64, Ordering::SeqCst);
                    drop(kv);
                    shim::mark("dropped");
                    mark("drv.dropped");
                });
                if kind == "writer-busy" {
                    std::thread::sleep(Duration::from_millis(120));
                } else {
                    // the parked worker goes on only once the drop has happened (the drop does not wait
                    // for it); releasing it earlier would let it start work BEFORE the drop, rightly
                    let _ = wait_until(|| dropper.is_finished(), Duration::from_millis(400));
                }
                ev["drop_done_before_release"] = json!(dropper.is_finished());
                release();
                let drop_joined = wait_until(|| dropper.is_finished(), Duration::from_secs(5));
                let _ = dropper.join();
                ev["drop_returned_ms"] = json!(drop_joined.map(|x| x as i64).unwrap_or(-1));
                if let Some(t) = inflight {
                    ev["inflight"] = json!(t.join().unwrap_or_else(|_| "panic".into()));
                }
                // in-flight background work (a merge that had started) may finish; give it a moment
                let gone = wait_until(|| bg_threads() <= base_bg, Duration::from_secs(3));
                ev["bg_gone_ms"] = json!(gone.map(|x| x as i64).unwrap_or(-1));
                let _ = t_drop;
                life_timeline(&mut ev, &cfgv);
                let calls_until_gone = shim::take_calls();
                let dirsnap = snapshot(&dir);
                let _ = &before_drop;
                // what the DROP itself does on its own thread (a last flush or fsync at close, say) is the drop; what
                // other threads do to the directory after it is background work.  An fsync changes nothing in it.
                let dtid = dropper_tid.load(Ordering::SeqCst);
                let by_others = calls_until_gone.iter().filter(|c| c.mutating() && c.kind != "fsync" && c.tid != dtid).count();
                ev["changed_between_drop_and_worker_exit"] = json!(by_others > 0);
                ev["mutating_calls_between_drop_and_worker_exit"] = json!(by_others);
                ev["calls_of_the_drop_itself"] = json!(calls_until_gone.iter().filter(|c| c.mutating() && c.tid == dtid).count());
                // once the drop has RETURNED nobody else may change the directory any more, whatever was in flight at
                // the drop (a drop that returns while a write or a merge of its store is still at work leaves a
                // directory that cannot be handed to anybody)
                let returned_at = calls_until_gone.iter().position(|c| c.kind == "mark" && c.file == "dropped");
                ev["changes_by_others_after_the_drop_returned"] = json!(match returned_at {
                    Some(i) => calls_until_gone[i..].iter().filter(|c| c.mutating() && c.kind != "fsync" && c.tid != dtid).count() as i64,
                    None => -1,
                });
                ev["after"] = use_closed_handle(&h);
                let calls = shim::take_calls();
                ev["mutating_calls_after_drop"] = json!(calls.iter().filter(|c| c.mutating()).count());
                ev["dir_unchanged"] = json!(snapshot(&dir) == dirsnap);
                shim::stop();
                // the directory can be opened again at once
                ev["reopen"] = json!(match open_store(&dir, &SpecCfg { max_file: 1_000_000, sync: "none".into(), th_frag_num: 1, th_frag_den: 1, th_dead: 1_000_000, th_small: 0 }, Knobs { concurrency: 1, cache: 4 }) {
                    Ok(kv2) => {
                        let ok = kv2.get_handle().get(Bytes::from_static(b"k0")).is_ok();
                        drop(kv2);
                        if ok { "ok".to_string() } else { "get-failed".to_string() }
                    }
                    Err(e) => e,
                });
                drop(h);
            }
            // A background merge is in flight at the drop (stopped after it has copied some of the keys); as soon as
            // the drop has returned the directory is opened again, and only then does the old merge go on.  The new
            // store must read every key and take writes: "the directory can be opened again at once" means USED.
            "mid-merge-reopen" => {
                let nth = inp["nth"].as_u64().unwrap_or(2);
                let cfgv = json!({"max_file_size": inp["max_file"].as_u64().unwrap_or(120),
                                  "merge": {"policy": "always", "check_interval_ms": 40, "check_jitter": 0.0,
                                            "triggers": {"fragmentation": 0.1, "dead_bytes": 10},
                                            "thresholds": {"fragmentation": 0.0, "dead_bytes": 0, "small_file": 1_000_000_000u64}}});
                quiesce();
                let base_bg = bg_threads();
                arm_nth("merge.copied", nth);
                let kv: Bitcask = make_config(&dir, &cfgv).open().expect("open");
                let h = kv.get_handle();
                for round in 0..3 {
                    for j in 0..6 {
                        let _ = h.set(Bytes::from(format!("k{j}")), Bytes::from(format!("v{round}-{j}")));
                    }
                }
                let parked = wait_parked(Duration::from_secs(3));
                ev["parked"] = json!(parked);
                mark("drv.drop");
                let dropper = std::thread::spawn(move || {
                    drop(kv);
                    mark("drv.dropped");
                });
                // (a drop that waits for the merge in flight is fine too: then the merge is let go first)
                let _ = wait_until(|| dropper.is_finished(), Duration::from_millis(400));
                let early = dropper.is_finished();
                ev["drop_done_before_release"] = json!(early);
                let nocfg = json!({"max_file_size": 120, "merge": {"policy": "never"}});
                let mut kv2: Option<Bitcask> = None;
                let mut reopen = "ok".to_string();
                if early {
                    match std::panic::catch_unwind(std::panic::AssertUnwindSafe(|| make_config(&dir, &nocfg).open())) {
                        Ok(Ok(k)) => kv2 = Some(k),
                        Ok(Err(e)) => reopen = format!("err:{e}"),
                        Err(_) => reopen = "panic".into(),
                    }
                }
                release();
                let drop_joined = wait_until(|| dropper.is_finished(), Duration::from_secs(5));
                let _ = dropper.join();
                ev["drop_returned_ms"] = json!(drop_joined.map(|x| x as i64).unwrap_or(-1));
                // the old worker (the only worker: the new store's policy is never, without interval sync it exits at once)
                let gone = wait_until(|| bg_threads() <= base_bg, Duration::from_secs(3));
                ev["bg_gone_ms"] = json!(gone.map(|x| x as i64).unwrap_or(-1));
                if kv2.is_none() && reopen == "ok" {
                    match std::panic::catch_unwind(std::panic::AssertUnwindSafe(|| make_config(&dir, &nocfg).open())) {
                        Ok(Ok(k)) => kv2 = Some(k),
                        Ok(Err(e)) => reopen = format!("err:{e}"),
                        Err(_) => reopen = "panic".into(),
                    }
                }
                ev["reopen"] = json!(reopen);
                let mut reads = vec![];
                if let Some(k2) = &kv2 {
                    let h2 = k2.get_handle();
                    for round in 0..2 {
                        for j in 0..6 {
                            let (h3, kb) = (h2.clone(), format!("k{j}").into_bytes());
                            reads.push(json!({"k": format!("k{j}"), "res": with_watchdog(move || get_res(&h3, &kb), Duration::from_secs(3)), "want": format!("v2-{j}"), "round": round}));
                        }
                        if round == 0 {
                            let (h3, h4) = (h2.clone(), h2.clone());
                            let w = with_watchdog(move || res_str(std::panic::catch_unwind(std::panic::AssertUnwindSafe(|| h3.set(Bytes::from_static(b"fresh"), Bytes::from_static(b"new"))))), Duration::from_secs(3));
                            reads.push(json!({"k": "set fresh", "res": w, "want": "ok", "round": round}));
                            reads.push(json!({"k": "fresh", "res": with_watchdog(move || get_res(&h4, b"fresh"), Duration::from_secs(3)), "want": "new", "round": round}));
                        }
                    }
                }
                ev["reads_through_the_reopened_store"] = json!(reads);
                ev["after"] = use_closed_handle(&h);
                drop(kv2);
                // and once more after everything has settled
                ev["final"] = json!(match open_store(&dir, &SpecCfg { max_file: 120, sync: "none".into(), th_frag_num: 1, th_frag_den: 1, th_dead: 1_000_000, th_small: 0 }, Knobs { concurrency: 1, cache: 4 }) {
                    Ok(kv3) => {
                        let h3 = kv3.get_handle();
                        let bad: Vec<String> = (0..6).filter(|j| get_res(&h3, format!("k{j}").as_bytes()) != format!("v2-{j}")).map(|j| format!("k{j}")).collect();
                        drop(kv3);
                        if bad.is_empty() { "ok".to_string() } else { format!("misreads {}", bad.join(",")) }
                    }
                    Err(e) => e,
                });
                drop(h);
            }
            "cycles" | "quick-cycles" => {
                let cycles = inp["n"].as_u64().unwrap_or(30) as usize;
                let cfgv = inp.get("config").cloned().unwrap_or(json!({}));
                let quick = kind == "quick-cycles";
                let mut counts: Vec<Value> = vec![];
                let mut base: Option<(usize, usize, usize)> = None;
                for c in 0..cycles {
                    let kv = make_config(&dir, &cfgv).open().expect("open");
                    if !quick {
                        let h = kv.get_handle();
                        let _ = h.set(Bytes::from(format!("k{}", c % 4)), Bytes::from(format!("v{c}")));
                        let _ = h.get(Bytes::from(format!("k{}", c % 4)));
                        std::thread::sleep(Duration::from_millis(inp["hold_ms"].as_u64().unwrap_or(3)));
                    }
                    drop(kv);
                    if c == 0 {
                        // the first tokio runtime of a process creates process-global descriptors:
                        // the baseline is taken after the first cycle
                        std::thread::sleep(Duration::from_millis(150));
                        wait_until(|| bg_threads() == 0 && fds_into(&dir) == 0, Duration::from_secs(3));
                        std::thread::sleep(Duration::from_millis(50));
                        base = Some((all_threads(), all_fds(), fds_into(&dir)));
                    }
                }
                // a thread that was just spawned carries its name only once it runs: let the last
                // worker get going before looking for workers that do not exit
                std::thread::sleep(Duration::from_millis(150));
                let settled = wait_until(|| bg_threads() == 0 && fds_into(&dir) == 0, Duration::from_secs(3));
                std::thread::sleep(Duration::from_millis(50));
                let b = base.unwrap_or((0, 0, 0));
                counts.push(json!({"threads0": b.0, "fds0": b.1, "dirfds0": b.2, "threads": all_threads(), "fds": all_fds(), "dirfds": fds_into(&dir), "bg": bg_threads()}));
                ev["cycles"] = json!(cycles);
                ev["settled_ms"] = json!(settled.map(|x| x as i64).unwrap_or(-1));
                ev["counts"] = json!(counts);
            }
            k => panic!("kind {k}"),
        }
        disarm();
        pend.clear();
        out.emit(&ev);
        n += 1;
    }
    n
}

fn snapshot(dir: &Path) -> Vec<(String, u64)> {
    let mut v: Vec<(String, u64)> = fs::read_dir(dir)
        .map(|r| r.flatten().map(|e| (e.file_name().to_string_lossy().to_string(), e.metadata().map(|m| m.len()).unwrap_or(0))).collect())
        .unwrap_or_default();
    v.sort();
    v
}

// ---------------------------------------------------------------------------------------
// bg (C18)

fn bg_mode(inputs: &[Value], si: usize, sn: usize, out: &mut TraceOut, pend: &Pending) -> u64 {
    let mut n = 0;
    for (i, inp) in inputs.iter().enumerate() {
        if i % sn != si {
            continue;
        }
        pend.set(&json!({"ev": "bg", "input": inp, "phase": "run"}));
        let sc = Scratch::new("bg");
        let dir = sc.path().to_path_buf();
        quiesce();
        reset_clock();
        disarm();
        let interval = inp["interval_ms"].as_u64().unwrap_or(200);
        let jitter = inp["jitter"].as_f64().unwrap_or(0.0);
        let policy = inp["policy"].as_str().unwrap_or("always");
        let pattern = inp["pattern"].as_str().unwrap_or("none").to_string();
        let observe_intervals = inp["observe"].as_u64().unwrap_or(4);
        let mut ev = json!({"ev": "bg", "input": inp});
        if pattern == "sync-busy" {
            // every periodic sync meets a writer that sits inside the writer lock: the sync has to wait
            // for it and must still force the file (a tick that is skipped is a missed interval)
            let cfg = json!({"sync": {"interval_ms": interval}, "max_file_size": 1_000_000});
            shim::start(&dir, false);
            FSYNCS.lock().unwrap().clear();
            shim::set_syscall_gate(Some(fsync_gate));
            let kv = make_config(&dir, &cfg).open().expect("open");
            let h = kv.get_handle();
            let t_end = Instant::now() + Duration::from_millis(interval * observe_intervals);
            let mut j = 0u64;
            while Instant::now() < t_end {
                arm("write.appended");
                let h2 = h.clone();
                let w = std::thread::spawn(move || h2.set(Bytes::from(format!("key{}", j % 5)), Bytes::from(vec![b'x'; 60])));
                let parked = wait_parked(Duration::from_secs(2));
                if parked {
                    // hold the writer lock until the next tick has fired, and a little longer
                    let seen = points("bg.sync.woke").len();
                    wait_until(|| points("bg.sync.woke").len() > seen, Duration::from_millis(interval * 3));
                    std::thread::sleep(Duration::from_millis(25));
                }
                release();
                let _ = w.join();
                j += 1;
            }
            disarm();
            std::thread::sleep(Duration::from_millis(interval + 50));
            let calls = shim::take_calls();
            ev["sync_wakes"] = json!(points("bg.sync.woke"));
            let _ = calls;
            ev["fsyncs"] = fsyncs_json();
            shim::set_syscall_gate(None);
            ev["actives"] = json!([]);
            ev["interval_ms"] = json!(interval);
            ev["observed_ms"] = json!(now_ms());
            end_life(kv, &mut ev, &cfg);
            shim::stop();
        } else if pattern == "sync" || pattern == "sync-fault" {
            // interval sync: which file is fsynced when, across rotations of the active file
            // (sync-fault: the second periodic fsync fails once - the ticks after it must go on as before)
            let cfg = json!({"sync": {"interval_ms": interval}, "max_file_size": 300});
            shim::start(&dir, false);
            FSYNCS.lock().unwrap().clear();
            shim::set_syscall_gate(Some(fsync_gate));
            if pattern == "sync-fault" {
                shim::fail_fsync_burst(1, 1, libc::EIO);
            }
            let kv = make_config(&dir, &cfg).open().expect("open");
            let h = kv.get_handle();
            let mut actives: Vec<Value> = vec![];
            let t_end = Instant::now() + Duration::from_millis(interval * observe_intervals);
            let mut j = 0u64;
            while Instant::now() < t_end {
                // steady writes that rotate the active file every few operations
                let _ = h.set(Bytes::from(format!("key{}", j % 5)), Bytes::from(vec![b'x'; 60]));
                j += 1;
                actives.push(json!({"t": now_ms(), "active": h.verif_dump().active_fileid}));
                std::thread::sleep(Duration::from_millis((interval / 8).max(5)));
            }
            let calls = shim::take_calls();
            let syncs: Vec<Value> = calls
                .iter()
                .filter(|c| c.kind == "fsync")
                .map(|c| json!({"file": c.file, "id": c.file.split('.').next().and_then(|x| x.parse::<i64>().ok()).unwrap_or(-1),
                                "data": c.file.ends_with(".bitcask.data")}))
                .collect();
            // timestamps of fsyncs are not in the shim record: pair them with the hook point
            // bg.sync.woke, which fires right before each periodic sync
            ev["sync_wakes"] = json!(points("bg.sync.woke"));
            let _ = syncs;
            ev["fsyncs"] = fsyncs_json();
            shim::set_syscall_gate(None);
            ev["actives"] = json!(actives);
            ev["interval_ms"] = json!(interval);
            ev["observed_ms"] = json!(now_ms());
            end_life(kv, &mut ev, &cfg);
            shim::stop();
        } else {
            // trigger 0.5 fragmentation / 300 dead bytes; inclusion thresholds deliberately lower
            let cfg = json!({"merge": {"policy": policy, "check_interval_ms": interval, "check_jitter": jitter,
                                       "triggers": {"fragmentation": 0.5, "dead_bytes": 300},
                                       "thresholds": {"fragmentation": 0.1, "dead_bytes": 50, "small_file": 0}}});
            if pattern == "frag-fault" {
                shim::start(&dir, false);
            }
            // the local wall-clock hour the scenario runs at (the policy must not depend on it)
            if let Some(hour) = inp["hour"].as_i64() {
                let mut t: libc::time_t = 0;
                let mut tm: libc::tm = unsafe { std::mem::zeroed() };
                unsafe {
                    libc::time(&mut t);
                    libc::localtime_r(&t, &mut tm);
                }
                // aim at hh:10 of the wanted hour
                let now_s = tm.tm_hour as i64 * 3600 + tm.tm_min as i64 * 60 + tm.tm_sec as i64;
                shim::set_clock_skew(hour * 3600 + 600 - now_s);
            }
            let val = |n: usize| Bytes::from(vec![b'v'; n]);
            if pattern == "frag-reopen" {
                // an earlier incarnation (merge policy never) leaves a file above the trigger behind; the store is
                // then opened with the policy under test and NO client does anything: the statistics rebuilt at
                // open already exceed the trigger
                let mut c0 = cfg.clone();
                c0["merge"]["policy"] = json!("never");
                let kv0 = make_config(&dir, &c0).open().expect("open");
                let h0 = kv0.get_handle();
                for j in 0..4 {
                    let _ = h0.set(Bytes::from(format!("k{j}")), val(1));
                }
                for r in 0..2 {
                    for j in 0..4 {
                        let _ = h0.set(Bytes::from(format!("k{j}")), val(1 + r));
                    }
                }
                drop(h0);
                drop(kv0);
                quiesce();
                reset_clock();
            }
            let kv = make_config(&dir, &cfg).open().expect("open");
            let h = kv.get_handle();
            match pattern.as_str() {
                "frag-reopen" => {}
                // dead fraction 2/12 = 0.17 and 2*27 = 54 dead bytes: above the thresholds, below the triggers
                "between" => {
                    for j in 0..10 {
                        let _ = h.set(Bytes::from(format!("k{j}")), val(1));
                    }
                    for j in 0..2 {
                        let _ = h.set(Bytes::from(format!("k{j}")), val(1));
                    }
                }
                // nothing dead at all
                "none" => {
                    for j in 0..10 {
                        let _ = h.set(Bytes::from(format!("k{j}")), val(1));
                    }
                }
                // dead fraction 8/12 > 0.5
                "frag" => {
                    for j in 0..4 {
                        let _ = h.set(Bytes::from(format!("k{j}")), val(1));
                    }
                    for r in 0..2 {
                        for j in 0..4 {
                            let _ = h.set(Bytes::from(format!("k{j}")), val(1 + r));
                        }
                    }
                }
                // 4 overwritten 120-byte values = 4*146 dead bytes > 300, dead fraction 4/14 < 0.5
                "dead" => {
                    for j in 0..10 {
                        let _ = h.set(Bytes::from(format!("k{j}")), val(if j < 4 { 120 } else { 1 }));
                    }
                    for j in 0..4 {
                        let _ = h.set(Bytes::from(format!("k{j}")), val(1));
                    }
                }
                // ten fresh keys, nothing dead; the task checks (and finds nothing) for a few intervals; then
                // eight of them are deleted: dead fraction 16/18 > 0.5, crossed by deletes alone
                "late-del" => {
                    for j in 0..10 {
                        let _ = h.set(Bytes::from(format!("k{j}")), val(1));
                    }
                    std::thread::sleep(Duration::from_millis(interval * 3 + 50));
                    ev["merges_before_crossing"] = json!(points("merge.selected").len());
                    for j in 0..8 {
                        let _ = h.del(Bytes::from(format!("k{j}")));
                    }
                }
                // the write that crosses the trigger (the ninth: 5 dead of 9) is HELD between its append and the
                // accounting of the entry it overwrites while the merge task checks twice; then it goes on and nobody
                // writes any more: whatever the task concluded while the write was half done, the merge is due within
                // an interval of the moment the write returned
                "frag-held" => {
                    for j in 0..4 {
                        let _ = h.set(Bytes::from(format!("k{j}")), val(1));
                    }
                    for j in 0..4 {
                        let _ = h.set(Bytes::from(format!("k{j}")), val(2));
                    }
                    ev["merges_before_crossing"] = json!(points("merge.selected").len());
                    arm("put.publishing");
                    let h2 = h.clone();
                    let w = std::thread::spawn(move || h2.set(Bytes::from_static(b"k0"), Bytes::from(vec![b'v'; 3])));
                    let parked = wait_parked(Duration::from_secs(3));
                    ev["parked"] = json!(parked);
                    let seen = points("bg.merge.woke").len();
                    wait_until(|| points("bg.merge.woke").len() >= seen + 2, Duration::from_millis(interval * 4 + 500));
                    release();
                    let _ = w.join();
                    disarm();
                }
                // as "frag", and the first background merge fails (its hint-file create): the trigger is
                // still exceeded afterwards, so the merge must be tried again within the next interval
                "frag-fault" => {
                    for j in 0..4 {
                        let _ = h.set(Bytes::from(format!("k{j}")), val(1));
                    }
                    for r in 0..2 {
                        for j in 0..4 {
                            let _ = h.set(Bytes::from(format!("k{j}")), val(1 + r));
                        }
                    }
                    // 12 writes and the open's create so far; the merge issues create(data) then create(hint)
                    shim::fail_at(shim::mutating_seen() + 1, libc::ENOSPC);
                }
                p => panic!("pattern {p}"),
            }
            let crossed_at = now_ms();
            // is a trigger exceeded?  Decided here from the dumped per-file statistics and the configured
            // triggers (fragmentation 0.5, dead bytes 300), not by asking the code under test
            let crossed = h.verif_dump().stats.iter().any(|&(_, live, dead, dbytes)| {
                dbytes > 300 || (live + dead > 0 && (dead as f64) / ((live + dead) as f64) > 0.5)
            });
            ev["can_merge"] = json!(crossed);
            ev["can_merge_says"] = json!(h.verif_can_merge());
            // observe for `observe_intervals` full intervals (plus jitter)
            let window = Duration::from_millis(((interval as f64) * (1.0 + jitter) * observe_intervals as f64) as u64 + 150);
            std::thread::sleep(window);
            let merges = points("merge.selected");
            ev["crossed_at"] = json!(crossed_at);
            ev["merge_starts"] = json!(merges);
            ev["wakes"] = json!(points("bg.merge.woke"));
            ev["interval_ms"] = json!(interval);
            ev["jitter_ms"] = json!((interval as f64 * jitter) as u64);
            ev["hint_files"] = json!(list_files(&dir, "hint").len());
            ev["observed_ms"] = json!(now_ms());
            end_life(kv, &mut ev, &cfg);
            shim::set_clock_skew(0);
            if pattern == "frag-fault" {
                shim::stop();
            }
        }
        pend.clear();
        out.emit(&ev);
        n += 1;
    }
    n
}

// ---------------------------------------------------------------------------------------
// conc (C04)

fn get_res(h: &Handle, k: &[u8]) -> String {
    let key = Bytes::from(k.to_vec());
    match std::panic::catch_unwind(std::panic::AssertUnwindSafe(|| h.get(key))) {
        Ok(Ok(Some(v))) => {
            if v.len() > 64 {
                format!("big:{}:{}", v.len(), v[0] as char)
            } else {
                String::from_utf8_lossy(&v).to_string()
            }
        }
        Ok(Ok(None)) => "none".into(),
        Ok(Err(e)) => format!("err:{e}"),
        Err(_) => "panic".into(),
    }
}

/// run `f` on a helper thread; "hang" if it does not finish in time
fn with_watchdog(f: impl FnOnce() -> String + Send + 'static, timeout: Duration) -> String {
    let (tx, rx) = std::sync::mpsc::channel();
    std::thread::spawn(move || {
        let _ = tx.send(f());
    });
    rx.recv_timeout(timeout).unwrap_or_else(|_| "hang".into())
}

fn conc_mode(inputs: &[Value], seed: u64, si: usize, sn: usize, out: &mut TraceOut, pend: &Pending) -> u64 {
    let mut n = 0;
    for (i, inp) in inputs.iter().enumerate() {
        if i % sn != si {
            continue;
        }
        pend.set(&json!({"ev": "conc", "input": inp, "phase": "run"}));
        let kind = inp["kind"].as_str().unwrap_or("stress").to_string();
        let sc = Scratch::new("conc");
        let dir = sc.path().to_path_buf();
        disarm();
        reset_clock();
        match kind.as_str() {
            // The writer is stopped between the two write(2) calls of an entry larger than the write
            // buffer; a get of ANOTHER key of the same file makes the (only) reader map the half
            // written file; after the writer finished, the large entry must be readable.
            "forced-remap" => {
                let big = inp["big"].as_u64().unwrap_or(20000) as usize;
                let cfg = json!({"concurrency": 1, "max_file_size": 10_000_000u64});
                shim::start(&dir, false);
                let kv = make_config(&dir, &cfg).open().expect("open");
                let h = kv.get_handle();
                let _ = h.set(Bytes::from_static(b"small1"), Bytes::from_static(b"one"));
                // warm the reader: it has the active file mapped with a short length
                let pre = get_res(&h, b"small1");
                let seen = shim::mutating_seen();
                // the big entry takes two writes: pause at the second one
                shim::pause_at(seen + 1);
                let h2 = h.clone();
                let w = std::thread::spawn(move || res_str(std::panic::catch_unwind(std::panic::AssertUnwindSafe(|| h2.set(Bytes::from_static(b"big"), Bytes::from(vec![b'B'; big]))))));
                let paused = shim::wait_paused(Duration::from_secs(3));
                // the file now holds the header of the big entry only; a get of the small key that lies
                // BEHIND the old mapping cannot be served without re-mapping, so write one more small
                // key first?  The writer is blocked; instead read a key whose entry is already mapped
                // and one that is not in the index yet (no file access) ...
                let mid_small = get_res(&h, b"small1");
                let mid_big = get_res(&h, b"big");
                shim::release();
                let wres = w.join().unwrap_or_else(|_| "panic".into());
                // a second small entry behind the big one forces the reader to re-map when read
                let _ = h.set(Bytes::from_static(b"small2"), Bytes::from_static(b"two"));
                let h3 = h.clone();
                let after_big = with_watchdog(move || get_res(&h3, b"big"), Duration::from_secs(5));
                let h3 = h.clone();
                let after_small2 = with_watchdog(move || get_res(&h3, b"small2"), Duration::from_secs(5));
                let h3 = h.clone();
                let again_big = with_watchdog(move || get_res(&h3, b"big"), Duration::from_secs(5));
                shim::stop();
                out.emit(&json!({"ev": "conc", "kind": kind, "big": big, "paused": paused, "pre": pre, "mid_small": mid_small, "mid_big": mid_big,
                                 "set_big": wres, "after_big": after_big, "after_small2": after_small2, "again_big": again_big,
                                 "expect_big": format!("big:{big}:B")}));
                drop(kv);
            }
            // same, but the reader maps the file WHILE the big entry is half written: a first get of a
            // key of that file by a reader that has not opened the file yet
            "forced-remap-cold" => {
                let big = inp["big"].as_u64().unwrap_or(20000) as usize;
                let cfg = json!({"concurrency": 1, "max_file_size": 10_000_000u64});
                shim::start(&dir, false);
                let kv = make_config(&dir, &cfg).open().expect("open");
                let h = kv.get_handle();
                let _ = h.set(Bytes::from_static(b"small1"), Bytes::from_static(b"one"));
                let seen = shim::mutating_seen();
                shim::pause_at(seen + 1);
                let h2 = h.clone();
                let w = std::thread::spawn(move || res_str(std::panic::catch_unwind(std::panic::AssertUnwindSafe(|| h2.set(Bytes::from_static(b"big"), Bytes::from(vec![b'B'; big]))))));
                let paused = shim::wait_paused(Duration::from_secs(3));
                // first access of this reader to the file: it maps header-of-big included
                let mid_small = get_res(&h, b"small1");
                shim::release();
                let wres = w.join().unwrap_or_else(|_| "panic".into());
                let h3 = h.clone();
                let after_big = with_watchdog(move || get_res(&h3, b"big"), Duration::from_secs(5));
                let h3 = h.clone();
                let again_small = with_watchdog(move || get_res(&h3, b"small1"), Duration::from_secs(5));
                shim::stop();
                out.emit(&json!({"ev": "conc", "kind": kind, "big": big, "paused": paused, "mid_small": mid_small, "set_big": wres,
                                 "after_big": after_big, "again_small": again_small, "expect_big": format!("big:{big}:B")}));
                drop(kv);
            }
            // A get is parked between its index lookup and its file read; a complete merge pass is
            // attempted meanwhile.  The merge must wait for the get (or the get must still succeed).
            // Read-path faults: the first gets fail to open their data file (out of descriptors), once or
            // twice per pooled reader.  Failed gets are earlier operations like any other: afterwards every
            // key must read its value, no get may wait for a reader that never comes back.
            "read-fault" => {
                let pool = inp["pool"].as_u64().unwrap_or(1) as usize;
                let fails = inp["fails"].as_u64().unwrap_or(2) as u32;
                let cfg = json!({"concurrency": pool, "readers_cache_size": 1, "max_file_size": 60});
                shim::start(&dir, false);
                let kv = make_config(&dir, &cfg).open().expect("open");
                let h = kv.get_handle();
                for j in 0..6 {
                    let _ = h.set(Bytes::from(format!("k{j}")), Bytes::from(format!("value{j}")));
                }
                shim::fail_next_read_opens(fails, libc::EMFILE);
                let mut failed = vec![];
                for j in 0..fails as usize {
                    let (h4, kb) = (h.clone(), format!("k{}", j % 6).into_bytes());
                    failed.push(json!(with_watchdog(move || get_res(&h4, &kb), Duration::from_secs(3))));
                }
                let left = shim::read_open_failures_left();
                shim::fail_next_read_opens(0, 0);
                let mut after = vec![];
                for round in 0..2 {
                    for j in 0..6 {
                        let (h4, kb) = (h.clone(), format!("k{j}").into_bytes());
                        let r = with_watchdog(move || get_res(&h4, &kb), Duration::from_secs(3));
                        after.push(json!({"k": format!("k{j}"), "res": r, "want": format!("value{j}"), "round": round}));
                    }
                }
                out.emit(&json!({"ev": "conc", "kind": kind, "input": inp, "failed": failed, "left": left, "after": after}));
                shim::stop();
                drop(kv);
            }
            // Every reader of the pool is held by a get (parked right after it took its reader), more gets are
            // waiting for a reader, then all holders return their readers at the same moment: every get must
            // complete (a waiter that is not woken although readers are idle waits forever), round after round.
            "pool-contention" => {
                let pool = inp["pool"].as_u64().unwrap_or(2) as usize;
                let waiters = inp["waiters"].as_u64().unwrap_or(pool as u64) as usize;
                let rounds = inp["rounds"].as_u64().unwrap_or(10) as usize;
                let cfg = json!({"concurrency": pool, "max_file_size": 1_000_000});
                let kv = make_config(&dir, &cfg).open().expect("open");
                let h = kv.get_handle();
                for j in 0..4 {
                    let _ = h.set(Bytes::from(format!("k{j}")), Bytes::from(format!("value{j}")));
                }
                let (mut stuck, mut wrong, mut held_all) = (0usize, 0usize, 0usize);
                let mut first_bad = String::new();
                for round in 0..rounds {
                    multi_arm("get.popped", pool);
                    let mut ths = vec![];
                    for t in 0..pool {
                        let (h2, kb) = (h.clone(), format!("k{}", t % 4).into_bytes());
                        ths.push((t % 4, std::thread::spawn(move || get_res(&h2, &kb))));
                    }
                    let all_held = multi_wait(pool, Duration::from_secs(3));
                    held_all += all_held as usize;
                    for t in 0..waiters {
                        let (h2, kb) = (h.clone(), format!("k{}", (t + 1) % 4).into_bytes());
                        ths.push(((t + 1) % 4, std::thread::spawn(move || get_res(&h2, &kb))));
                    }
                    // let the waiters reach their wait
                    std::thread::sleep(Duration::from_millis(if round % 2 == 0 { 20 } else { 2 }));
                    multi_release();
                    let deadline = Instant::now() + Duration::from_secs(4);
                    for (j, t) in ths {
                        while !t.is_finished() && Instant::now() < deadline {
                            std::thread::sleep(Duration::from_millis(1));
                        }
                        if !t.is_finished() {
                            stuck += 1;
                            if first_bad.is_empty() {
                                first_bad = format!("round {round}: a get of k{j} never returned");
                            }
                            continue; // the thread is left behind
                        }
                        let r = t.join().unwrap_or_else(|_| "panic".into());
                        if r != format!("value{j}") {
                            wrong += 1;
                            if first_bad.is_empty() {
                                first_bad = format!("round {round}: get k{j} -> {r}");
                            }
                        }
                    }
                    if stuck > 0 {
                        break;
                    }
                }
                out.emit(&json!({"ev": "conc", "kind": kind, "input": inp, "rounds": rounds, "rounds_with_all_readers_held": held_all,
                                 "stuck": stuck, "wrong": wrong, "first_bad": first_bad}));
                if stuck > 0 {
                    // threads of this scenario are stuck inside the store: do not reuse the process
                    std::mem::forget(kv);
                    disarm();
                    pend.clear();
                    return n + 1;
                }
                drop(kv);
            }
            // A set / delete of an existing key meets an I/O error, and the writer is HELD at the failing call while
            // another thread reads the key: whatever the failing operation does to the index before it knows whether it
            // will succeed must not be visible - a get during it and the gets after it tell one story (a key that is
            // gone during a delete that then fails, and back afterwards, has no order of operations that explains it)
            "forced-fault-vs-get" => {
                let op = inp["op"].as_str().unwrap_or("del").to_string();
                let nth = inp["nth"].as_u64().unwrap_or(0);
                let cfg = inp["config"].clone();
                shim::start(&dir, false);
                let kv = make_config(&dir, &cfg).open().expect("open");
                let h = kv.get_handle();
                let _ = h.set(Bytes::from_static(b"other"), Bytes::from_static(b"o"));
                let _ = h.set(Bytes::from_static(b"k"), Bytes::from_static(b"v1"));
                let pre = get_res(&h, b"k");
                let seen = shim::mutating_seen();
                shim::pause_at(seen + nth);
                shim::fail_at(seen + nth, libc::EIO);
                let h2 = h.clone();
                let op2 = op.clone();
                let w = std::thread::spawn(move || {
                    if op2 == "del" {
                        match std::panic::catch_unwind(std::panic::AssertUnwindSafe(|| h2.del(Bytes::from_static(b"k")))) {
                            Ok(Ok(b)) => format!("ok:{b}"),
                            Ok(Err(e)) => format!("err:{e}"),
                            Err(_) => "panic".into(),
                        }
                    } else {
                        res_str(std::panic::catch_unwind(std::panic::AssertUnwindSafe(|| h2.set(Bytes::from_static(b"k"), Bytes::from_static(b"v2")))))
                    }
                });
                let paused = shim::wait_paused(Duration::from_secs(3));
                let h3 = h.clone();
                let during = with_watchdog(move || get_res(&h3, b"k"), Duration::from_millis(500));
                let h3 = h.clone();
                let during_other = with_watchdog(move || get_res(&h3, b"other"), Duration::from_millis(500));
                shim::release();
                let opres = w.join().unwrap_or_else(|_| "panic".into());
                let mut after = vec![];
                for _ in 0..3 {
                    let h3 = h.clone();
                    after.push(json!(with_watchdog(move || get_res(&h3, b"k"), Duration::from_secs(3))));
                }
                shim::stop();
                out.emit(&json!({"ev": "conc", "kind": kind, "input": inp, "paused": paused, "pre": pre, "op_result": opres,
                                 "during": during, "during_other": during_other, "after": after}));
                drop(kv);
            }
            "forced-merge-vs-get" => {
                let cfg = json!({"concurrency": 1, "max_file_size": 60,
                                 "merge": {"thresholds": {"fragmentation": 0.0, "dead_bytes": 0, "small_file": 1_000_000}}});
                let kv = make_config(&dir, &cfg).open().expect("open");
                let h = kv.get_handle();
                for j in 0..6 {
                    let _ = h.set(Bytes::from(format!("k{j}")), Bytes::from(format!("value{j}")));
                }
                let _ = h.set(Bytes::from_static(b"k0"), Bytes::from_static(b"newer"));
                // reopen so that the reader has no file open yet
                drop(kv);
                let kv = make_config(&dir, &cfg).open().expect("reopen");
                let h = kv.get_handle();
                arm("get.looked_up");
                let h2 = h.clone();
                let g = std::thread::spawn(move || get_res(&h2, b"k3"));
                let parked = wait_parked(Duration::from_secs(3));
                let h3 = h.clone();
                let m = std::thread::spawn(move || res_str(std::panic::catch_unwind(std::panic::AssertUnwindSafe(|| h3.verif_merge()))));
                // give the merge ample time to (wrongly) finish inside the window
                let merged_inside = wait_until(|| m.is_finished(), Duration::from_millis(400)).is_some();
                release();
                let got = g.join().unwrap_or_else(|_| "panic".into());
                let mres = m.join().unwrap_or_else(|_| "panic".into());
                let h4 = h.clone();
                let after = with_watchdog(move || get_res(&h4, b"k3"), Duration::from_secs(5));
                out.emit(&json!({"ev": "conc", "kind": kind, "parked": parked, "merge_finished_inside_get": merged_inside, "get": got,
                                 "merge": mres, "after": after, "expect": "value3"}));
                drop(kv);
            }
            // The merger is parked at its n-th copy: the keys copied before are already re-pointed to
            // the output file.  Every key must read its value (a get that has to wait for the shard the
            // merger holds is fine, it is given 300 ms and then counted as blocked).
            "forced-get-during-merge" => {
                let nth = inp["nth"].as_u64().unwrap_or(3);
                let nkeys = inp["keys"].as_u64().unwrap_or(12) as usize;
                let vlen = inp["vlen"].as_u64().unwrap_or(10) as usize;
                // one reader per get and two to spare: a get that waits for the shard the merger holds keeps
                // its reader, and with a smaller pool two such gets would make all later ones wait for a
                // reader (which keys share the merger's shard differs from process to process)
                let cfg = json!({"concurrency": nkeys + 2, "max_file_size": inp["max_file"].as_u64().unwrap_or(100),
                                 "merge": {"thresholds": {"fragmentation": 0.0, "dead_bytes": 0, "small_file": 1_000_000_000u64}}});
                let kv = make_config(&dir, &cfg).open().expect("open");
                let h = kv.get_handle();
                let val = |j: usize| -> Vec<u8> { let mut v = format!("val{j}-").into_bytes(); v.resize(vlen.max(v.len()), b'x'); v };
                for j in 0..nkeys {
                    let _ = h.set(Bytes::from(format!("k{j}")), Bytes::from(val(j)));
                }
                arm_nth("merge.copied", nth);
                let h3 = h.clone();
                let m = std::thread::spawn(move || res_str(std::panic::catch_unwind(std::panic::AssertUnwindSafe(|| h3.verif_merge()))));
                let parked = wait_parked(Duration::from_secs(3));
                let mut during = vec![];
                for j in 0..nkeys {
                    let (h4, kb) = (h.clone(), format!("k{j}").into_bytes());
                    let r = with_watchdog(move || get_res(&h4, &kb), Duration::from_millis(300));
                    let want = String::from_utf8_lossy(&val(j)).to_string();
                    let want = if want.len() > 64 { format!("big:{}:{}", want.len(), want.as_bytes()[0] as char) } else { want };
                    during.push(json!({"k": format!("k{j}"), "res": r, "want": want}));
                }
                release();
                let mres = m.join().unwrap_or_else(|_| "panic".into());
                let mut after = vec![];
                for j in 0..nkeys {
                    let (h4, kb) = (h.clone(), format!("k{j}").into_bytes());
                    let r = with_watchdog(move || get_res(&h4, &kb), Duration::from_secs(5));
                    let want = String::from_utf8_lossy(&val(j)).to_string();
                    let want = if want.len() > 64 { format!("big:{}:{}", want.len(), want.as_bytes()[0] as char) } else { want };
                    after.push(json!({"k": format!("k{j}"), "res": r, "want": want}));
                }
                out.emit(&json!({"ev": "conc", "kind": kind, "input": inp, "parked": parked, "merge": mres, "during": during, "after": after}));
                drop(kv);
            }
            "stress" => {
                let _ = bcverif::take_panic_messages();
                let threads = inp["threads"].as_u64().unwrap_or(4) as usize;
                let nops = inp["ops"].as_u64().unwrap_or(10) as usize;
                let nkeys = inp["keys"].as_u64().unwrap_or(2) as usize;
                let windows = inp["windows"].as_u64().unwrap_or(4) as usize;
                let pool = inp["pool"].as_u64().unwrap_or(1) as usize;
                let merger = inp["merger"].as_bool().unwrap_or(true);
                let cfg = json!({"concurrency": pool, "readers_cache_size": inp["cache"].as_u64().unwrap_or(2), "max_file_size": inp["max_file"].as_u64().unwrap_or(30000),
                                 "merge": {"thresholds": {"fragmentation": 0.3, "dead_bytes": 2000, "small_file": 64}}});
                let kv = make_config(&dir, &cfg).open().expect("open");
                let h = kv.get_handle();
                DELAY_US.store(inp["delay_us"].as_u64().unwrap_or(300), Ordering::SeqCst);
                DELAY_RNG.store(seed.wrapping_mul(0x9E3779B97F4A7C15).wrapping_add(i as u64) | 1, Ordering::SeqCst);
                let hseq = Arc::new(AtomicU64::new(0));
                let stop = Arc::new(AtomicBool::new(false));
                let mh = if merger {
                    let (h2, stop2) = (h.clone(), stop.clone());
                    Some(std::thread::spawn(move || {
                        while !stop2.load(Ordering::SeqCst) {
                            let _ = std::panic::catch_unwind(std::panic::AssertUnwindSafe(|| h2.verif_merge()));
                            std::thread::sleep(Duration::from_millis(1));
                        }
                    }))
                } else {
                    None
                };
                let keys: Vec<String> = (0..nkeys).map(|k| format!("key{k}")).collect();
                let clock = inp["clock"].as_bool().unwrap_or(false);
                for w in 0..windows {
                    // the wall clock is stepped back further and further between windows
                    if clock && w % 2 == 1 {
                        shim::set_clock_skew(-3600 * (w as i64 + 1));
                    }
                    let mut init = vec![];
                    for k in &keys {
                        let h3 = h.clone();
                        let kb = k.clone().into_bytes();
                        init.push(json!({"k": k, "v": with_watchdog(move || get_res(&h3, &kb), Duration::from_secs(10))}));
                    }
                    let barrier = Arc::new(std::sync::Barrier::new(threads));
                    let mut ths = vec![];
                    for t in 0..threads {
                        let (h2, hseq, barrier, keys) = (h.clone(), hseq.clone(), barrier.clone(), keys.clone());
                        let mut rng = Rng::new(seed.wrapping_add((i * 7919 + w * 131 + t) as u64));
                        ths.push(std::thread::spawn(move || {
                            let mut evs: Vec<Value> = vec![];
                            barrier.wait();
                            for o in 0..nops {
                                let k = rng.pick(&keys).clone();
                                let r = rng.below(10);
                                let inv = hseq.fetch_add(1, Ordering::SeqCst);
                                let (op, v, res) = if r < 4 {
                                    // values are unique per writer; every third one is larger than the write buffer
                                    let big = rng.below(3) == 0;
                                    let (vname, bytes) = if big {
                                        // a band around the write buffer: entries just over it whose value is
                                        // still below it (8164..8191 with these keys), and larger ones
                                        let n = 8150 + (t * 100 + o * 37) % 1000;
                                        (format!("big:{n}:{}", (b'a' + t as u8) as char), vec![b'a' + t as u8; n])
                                    } else {
                                        let s = format!("t{t}w{w}o{o}");
                                        (s.clone(), s.into_bytes())
                                    };
                                    let (h3, kb) = (h2.clone(), k.clone().into_bytes());
                                    let r = with_watchdog(move || match std::panic::catch_unwind(std::panic::AssertUnwindSafe(|| h3.set(Bytes::from(kb), Bytes::from(bytes)))) {
                                        Ok(Ok(())) => "OK".into(),
                                        Ok(Err(e)) => format!("err:{e}"),
                                        Err(_) => "panic".into(),
                                    }, Duration::from_secs(10));
                                    ("set", vname, r)
                                } else if r < 8 {
                                    let (h3, kb) = (h2.clone(), k.clone().into_bytes());
                                    ("get", "-".to_string(), with_watchdog(move || get_res(&h3, &kb), Duration::from_secs(10)))
                                } else {
                                    let (h3, kb) = (h2.clone(), k.clone().into_bytes());
                                    let r = with_watchdog(move || match std::panic::catch_unwind(std::panic::AssertUnwindSafe(|| h3.del(Bytes::from(kb)))) {
                                        Ok(Ok(true)) => "1".into(),
                                        Ok(Ok(false)) => "0".into(),
                                        Ok(Err(e)) => format!("err:{e}"),
                                        Err(_) => "panic".into(),
                                    }, Duration::from_secs(10));
                                    ("del", "-".to_string(), r)
                                };
                                let ret = hseq.fetch_add(1, Ordering::SeqCst);
                                evs.push(json!({"c": t, "op": op, "k": k, "v": v, "inv": inv, "ret": ret, "res": res, "ending": "ok"}));
                            }
                            evs
                        }));
                    }
                    let mut ops: Vec<Value> = vec![];
                    for t in ths {
                        ops.extend(t.join().unwrap_or_default());
                    }
                    out.emit(&json!({"ev": "lin", "run": i, "window": w, "clients": threads, "init": init, "ops": ops}));
                    n += 1;
                }
                stop.store(true, Ordering::SeqCst);
                if let Some(m) = mh {
                    let _ = m.join();
                }
                DELAY_US.store(0, Ordering::SeqCst);
                // the ability to serve reads is intact: every key is still readable, promptly
                let mut fin = vec![];
                for k in &keys {
                    let (h3, kb) = (h.clone(), k.clone().into_bytes());
                    fin.push(json!({"k": k, "res": with_watchdog(move || get_res(&h3, &kb), Duration::from_secs(10))}));
                }
                shim::set_clock_skew(0);
                // At quiescence (every thread joined, the merger stopped) the sequential properties hold again, whatever
                // the interleavings were: the counters equal ground truth (C19: dump vs an independent scan of the files),
                // a restart reads what the store read (C02), with and without hint files (C12).
                let dump = h.verif_dump();
                let mut truth: BTreeMap<u64, (u64, u64, u64)> = BTreeMap::new();   // file -> (live, dead, dead bytes)
                let mut scan_bad = String::new();
                for (id, path) in list_files(&dir, "data") {
                    let bytes = fs::read(&path).unwrap_or_default();
                    let (ents, _trail, _junk) = bcverif::scan_data(&bytes);
                    let mut live = 0u64;
                    let mut live_bytes = 0u64;
                    let total: u64 = ents.iter().map(|e| e.len).sum();
                    for e in &ents {
                        if dump.keydir.iter().any(|(k, f, p, l)| &k[..] == &e.key[..] && *f == id && *p == e.pos && *l == e.len) {
                            live += 1;
                            live_bytes += e.len;
                        }
                    }
                    if !ents.is_empty() {
                        truth.insert(id, (live, ents.len() as u64 - live, total - live_bytes));
                    }
                }
                let mut stats_bad: Vec<String> = vec![];
                for &(f, live, dead, dbytes) in &dump.stats {
                    let t = truth.get(&f).copied().unwrap_or((0, 0, 0));
                    if (live, dead, dbytes) != t {
                        stats_bad.push(format!("file {f}: store says live {live} dead {dead} dead bytes {dbytes}, the files say {:?}", t));
                    }
                }
                for (f, t) in &truth {
                    if !dump.stats.iter().any(|s| s.0 == *f) {
                        stats_bad.push(format!("file {f}: no counters, the files say {:?}", t));
                    }
                }
                for (k, f, _, _) in &dump.keydir {
                    if !truth.contains_key(f) && scan_bad.is_empty() {
                        scan_bad = format!("the index points key {:?} into file {f}, which holds no entry", String::from_utf8_lossy(k));
                    }
                }
                let before: Vec<String> = keys.iter().map(|k| get_res(&h, k.as_bytes())).collect();
                drop(h);
                drop(kv);
                let reopen = |skip_hints: bool| -> Vec<String> {
                    let sc2 = Scratch::new("q");
                    bcverif::copy_dir(&dir, sc2.path(), skip_hints);
                    match make_config(sc2.path(), &cfg).open() {
                        Ok(kv2) => {
                            let h2 = kv2.get_handle();
                            let r = keys.iter().map(|k| get_res(&h2, k.as_bytes())).collect();
                            drop(kv2);
                            r
                        }
                        Err(e) => vec![format!("open failed: {e}")],
                    }
                };
                let with_hints = reopen(false);
                let without_hints = reopen(true);
                // a counter that underflows panics in this (overflow-checked) build: the operation's outcome is C04's
                // business, the underflow itself is C19's ("the counters never underflow")
                let overflow_panics: Vec<String> = bcverif::take_panic_messages().into_iter().filter(|m| m.contains("overflow") && m.contains("storage")).collect();
                out.emit(&json!({"ev": "conc", "kind": "stress-final", "final": fin, "stats_bad": stats_bad.iter().take(3).collect::<Vec<_>>(),
                                 "counter_overflow_panics": overflow_panics.iter().take(2).collect::<Vec<_>>(),
                                 "index_bad": scan_bad, "reads_before_close": before, "after_restart": with_hints, "after_restart_without_hints": without_hints}));
            }
            k => panic!("kind {k}"),
        }
        disarm();
        pend.clear();
        n += 1;
    }
    n
}

// ---------------------------------------------------------------------------------------
// sched (C04): replay TLC-generated interleavings of BitcaskConc.tla

fn sched_mode(inputs: &[Value], _seed: u64, si: usize, sn: usize, out: &mut TraceOut, pend: &Pending) -> u64 {
    let mut n = 0;
    for (i, inp) in inputs.iter().enumerate() {
        if i % sn != si {
            continue;
        }
        pend.set(&json!({"ev": "sched", "input": {"steps": inp["steps"].as_array().map(|a| a.len())}, "phase": "run"}));
        let steps = inp["steps"].as_array().cloned().unwrap_or_default();
        let pool = inp["pool"].as_u64().unwrap_or(1) as usize;
        // thread programs from the schedule
        let mut wops: Vec<(String, String)> = vec![];
        let mut rkeys: BTreeMap<String, Vec<String>> = BTreeMap::new();
        let mut merges = 0usize;
        for s in &steps {
            let (t, a) = (s["t"].as_str().unwrap_or(""), s["a"].as_str().unwrap_or(""));
            match (t, a) {
                ("w", "start") => wops.push((s["k"].as_str().unwrap_or("").into(), s["v"].as_str().unwrap_or("").into())),
                ("m", "start") => merges += 1,
                (r, "pop") if r.starts_with('r') => rkeys.entry(r.to_string()).or_default().push(s["k"].as_str().unwrap_or("").into()),
                _ => {}
            }
        }
        let rnames: Vec<String> = rkeys.keys().cloned().collect();
        let role_of = |t: &str| -> usize {
            match t {
                "w" => ROLE_W,
                "m" => ROLE_M,
                r => 2 + rnames.iter().position(|x| x == r).unwrap_or(0),
            }
        };
        let sc = Scratch::new("sched");
        let dir = sc.path().to_path_buf();
        let cfg = json!({"concurrency": pool, "readers_cache_size": 4, "max_file_size": inp["max_file"].as_u64().unwrap_or(9100),
                         "merge": {"thresholds": {"fragmentation": 0.0, "dead_bytes": 0, "small_file": 1_000_000_000u64}}});
        shim::start(&dir, false);
        let kv = make_config(&dir, &cfg).open().expect("open");
        let h = kv.get_handle();
        *SCHED.lock().unwrap() = vec![TState::default(); 2 + rnames.len()];
        SCHED_ON.store(true, Ordering::SeqCst);
        shim::set_syscall_gate(Some(sched_syscall));
        let hseq = Arc::new(AtomicU64::new(0));
        let results: Arc<Mutex<Vec<Value>>> = Arc::new(Mutex::new(vec![]));
        let mut ths = vec![];
        // writer
        {
            let (h2, hseq, results) = (h.clone(), hseq.clone(), results.clone());
            ths.push(std::thread::spawn(move || {
                ROLE.with(|r| r.set(Some(ROLE_W)));
                for (oi, (k, v)) in wops.iter().enumerate() {
                    park("opstart");
                    let inv = hseq.fetch_add(1, Ordering::SeqCst);
                    let (op, vname, res) = if v == "none" {
                        let r = match std::panic::catch_unwind(std::panic::AssertUnwindSafe(|| h2.del(Bytes::from(k.clone())))) {
                            Ok(Ok(true)) => "1".to_string(),
                            Ok(Ok(false)) => "0".into(),
                            Ok(Err(e)) => format!("err:{e}"),
                            Err(_) => "panic".into(),
                        };
                        ("del", "-".to_string(), r)
                    } else {
                        // unique values: small ones by text, large ones by length
                        let (vname, bytes) = if v == "vb" {
                            let len = 9000 + oi;
                            (format!("big:{len}:B"), vec![b'B'; len])
                        } else {
                            let t = format!("w{oi}");
                            (t.clone(), t.into_bytes())
                        };
                        let r = match std::panic::catch_unwind(std::panic::AssertUnwindSafe(|| h2.set(Bytes::from(k.clone()), Bytes::from(bytes)))) {
                            Ok(Ok(())) => "OK".to_string(),
                            Ok(Err(e)) => format!("err:{e}"),
                            Err(_) => "panic".into(),
                        };
                        ("set", vname, r)
                    };
                    let ret = hseq.fetch_add(1, Ordering::SeqCst);
                    results.lock().unwrap().push(json!({"c": 0, "op": op, "k": k, "v": vname, "inv": inv, "ret": ret, "res": res, "ending": "ok"}));
                }
                let mut g = SCHED.lock().unwrap();
                g[ROLE_W].done = true;
                SCHEDCV.notify_all();
            }));
        }
        // merger
        {
            let h2 = h.clone();
            ths.push(std::thread::spawn(move || {
                ROLE.with(|r| r.set(Some(ROLE_M)));
                for _ in 0..merges {
                    park("opstart");
                    SCHED.lock().unwrap()[ROLE_M].first_create_pending = true;
                    let _ = std::panic::catch_unwind(std::panic::AssertUnwindSafe(|| h2.verif_merge()));
                }
                let mut g = SCHED.lock().unwrap();
                g[ROLE_M].done = true;
                SCHEDCV.notify_all();
            }));
        }
        // readers
        for (ri, rn) in rnames.iter().enumerate() {
            let (h2, hseq, results, keys) = (h.clone(), hseq.clone(), results.clone(), rkeys[rn].clone());
            ths.push(std::thread::spawn(move || {
                ROLE.with(|r| r.set(Some(2 + ri)));
                for k in keys {
                    park("opstart");
                    let inv = hseq.fetch_add(1, Ordering::SeqCst);
                    let res = get_res(&h2, k.as_bytes());
                    let ret = hseq.fetch_add(1, Ordering::SeqCst);
                    results.lock().unwrap().push(json!({"c": 1 + ri, "op": "get", "k": k, "v": "-", "inv": inv, "ret": ret, "res": res, "ending": "ok"}));
                }
                let mut g = SCHED.lock().unwrap();
                g[2 + ri].done = true;
                SCHEDCV.notify_all();
            }));
        }
        // follow the schedule
        let tmo = Duration::from_millis(250);
        let mut followed = 0usize;
        let mut diverged: Vec<Value> = vec![];
        for (si2, s) in steps.iter().enumerate() {
            let (t, a) = (s["t"].as_str().unwrap_or(""), s["a"].as_str().unwrap_or(""));
            let role = role_of(t);
            let expect: &[&str] = match (t, a) {
                ("w", "start") | ("m", "start") => &["opstart"],
                ("w", "write") | ("w", "lastwrite") => &["sys:write"],
                ("w", "publish") => &["put.publishing", "del.publishing"],
                ("m", "copy") => &["sys:create"],
                ("m", "repoint") => &["merge.copied"],
                ("m", "hintnext") => &["sys:hintwrite"],
                ("m", "finish") => &["sys:create", "merge.unlinking"],
                (_, "pop") => &["opstart"],
                (_, "lookup") => &["get.popped"],
                (_, "map") => &["get.looked_up"],
                (_, "slice") => &["reader.mapped"],
                _ => &[],
            };
            let mut r = step(role, expect, tmo);
            if (t, a) == ("m", "finish") {
                // an empty merge goes from its first create straight to the unlink phase: finish it
                let mut guard = 0;
                while r == "merge.unlinking" && guard < 3 {
                    r = step(role, &["merge.unlinking"], tmo);
                    guard += 1;
                }
            }
            if r.starts_with("mismatch") || r == "not-parked" || r == "already-done" || r == "blocked" {
                if diverged.len() < 5 {
                    diverged.push(json!({"at": si2, "thread": t, "action": a, "got": r}));
                }
            } else {
                followed += 1;
            }
        }
        // let everything run to its end
        SCHED_ON.store(false, Ordering::SeqCst);
        {
            let mut g = SCHED.lock().unwrap();
            for t in g.iter_mut() {
                t.release = true;
            }
            SCHEDCV.notify_all();
        }
        let t0 = Instant::now();
        let mut hung = false;
        for t in ths {
            while !t.is_finished() {
                if t0.elapsed() > Duration::from_secs(10) {
                    hung = true;
                    break;
                }
                std::thread::sleep(Duration::from_millis(2));
            }
            if t.is_finished() {
                let _ = t.join();
            }
        }
        shim::set_syscall_gate(None);
        shim::stop();
        ROLE.with(|r| r.set(None));
        let ops = results.lock().unwrap().clone();
        let bad: Vec<Value> = ops.iter().filter(|o| { let r = o["res"].as_str().unwrap_or(""); r == "panic" || r.starts_with("err:") }).cloned().collect();
        // every reader must still be able to read afterwards
        let mut fin = vec![];
        if !hung {
            for k in ["k1", "k2"] {
                let (h3, kb) = (h.clone(), k.as_bytes().to_vec());
                fin.push(json!({"k": k, "res": with_watchdog(move || get_res(&h3, &kb), Duration::from_secs(5))}));
            }
        }
        pend.clear();
        out.emit(&json!({"ev": "conc", "kind": "sched", "steps": steps.len(), "followed": followed, "diverged": diverged, "hung": hung,
                         "bad_ops": bad, "final": fin}));
        if !hung {
            out.emit(&json!({"ev": "lin", "run": i, "window": 0, "clients": 1 + rnames.len(),
                             "init": [{"k": "k1", "v": "none"}, {"k": "k2", "v": "none"}], "ops": ops}));
        }
        n += 1;
        if hung {
            // threads of this scenario are stuck inside the store: do not reuse the process
            let l = 0;
            let _ = l;
            break;
        }
        drop(kv);
    }
    n
}

fn main() {
    bcverif::shim::init();
    quiet_panics();
    let args: Vec<String> = std::env::args().collect();
    if args.len() < 4 {
        eprintln!("usage: sysdrive close|bg|conc <inputs.jsonl> <out-prefix> --shard i/n [--seed N]");
        std::process::exit(2);
    }
    let seed: u64 = arg_val(&args, "--seed").and_then(|s| s.parse().ok()).unwrap_or(1);
    let shard = arg_val(&args, "--shard").unwrap_or_else(|| "0/1".into());
    let (si, sn): (usize, usize) = {
        let mut it = shard.split('/');
        (it.next().unwrap().parse().unwrap(), it.next().unwrap().parse().unwrap())
    };
    let text = fs::read_to_string(&args[2]).expect("inputs file");
    let inputs: Vec<Value> = text.lines().filter(|l| !l.trim().is_empty()).map(|l| serde_json::from_str(l).expect("json")).collect();
    let prefix = PathBuf::from(&args[3]);
    let path = PathBuf::from(format!("{}.{}.ndjson", prefix.display(), si));
    let pend = Pending::new(PathBuf::from(format!("{}.{}.pending", prefix.display(), si)));
    let mut out = TraceOut::create(&path);
    out.emit(&json!({"ev": "header", "mode": args[1]}));
    install_hooks();
    let _unused: BTreeMap<u8, u8> = BTreeMap::new();
    {
        let path = pend.0.clone();
        std::thread::spawn(move || {
            let mut last = (std::time::SystemTime::UNIX_EPOCH, 0u64);
            let mut since = Instant::now();
            loop {
                std::thread::sleep(Duration::from_secs(2));
                let cur = fs::metadata(&path).map(|m| (m.modified().unwrap_or(std::time::SystemTime::UNIX_EPOCH), m.len())).unwrap_or(last);
                if cur != last {
                    last = cur;
                    since = Instant::now();
                } else if cur.1 > 0 && since.elapsed() > Duration::from_secs(120) {
                    eprintln!("watchdog: scenario hung for 120 s");
                    std::process::abort();
                }
            }
        });
    }
    std::thread::sleep(Duration::from_millis(20));
    BASE_THREADS.store(all_threads() as u64, Ordering::SeqCst);
    let n = match args[1].as_str() {
        "close" => close_mode(&inputs, si, sn, &mut out, &pend),
        "bg" => bg_mode(&inputs, si, sn, &mut out, &pend),
        "conc" => conc_mode(&inputs, seed, si, sn, &mut out, &pend),
        "sched" => sched_mode(&inputs, seed, si, sn, &mut out, &pend),
        m => panic!("mode {m}"),
    };
    let l = out.finish();
    pend.clear();
    let _ = fs::remove_file(&pend.0);
    println!("{}", json!({"file": path.display().to_string(), "runs": n, "lines": l}));
    std::process::exit(0);
}
