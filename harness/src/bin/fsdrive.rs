//! System-call level driver (C03 C09 C14 C20).
//!
//! Runs workloads on the real store with the in-process shim recording every file-system call
//! on the store directory, and then
//!   crash : for EVERY boundary between two recorded mutating calls, rebuilds the directory a
//!           kill at that instant leaves behind (the effects of exactly that prefix of calls),
//!           opens it with the real recovery code, reads every key, and keeps using it
//!           (a put, a reopen) to see which file ids are created next;
//!   power : (sync=always) additionally cuts files back towards their last completed fsync;
//!   fault : re-runs the workload once per mutating call and errno with that call failing once.
//! Everything is written as NDJSON in program order (inv, sys.., crash/power probes, ret) so
//! that the TLA+ monitors can judge it with the acknowledged map they maintain.
//!
//!   fsdrive crash|power|fault <behaviours.jsonl> <out-prefix> --shard i/n [--seed N] [--max-points N]

use std::{
    collections::{BTreeMap, BTreeSet},
    fs,
    path::{Path, PathBuf},
};

use bcverif::{shim::Call, *};
use bitcask::storage::KeyValueStorage;
use serde_json::{json, Value};

#[derive(Clone, Debug)]
struct Behaviour {
    id: String,
    cfg: SpecCfg,
    ops: Vec<Vec<String>>,
    /// (replays) run only this burst of failing fsyncs: [first, length]
    burst: Option<(u64, u32)>,
}

fn arg_val(args: &[String], name: &str) -> Option<String> {
    args.iter().position(|a| a == name).and_then(|i| args.get(i + 1).cloned())
}

struct Pending(PathBuf);
impl Pending {
    fn set(&self, v: &Value) {
        let _ = fs::write(&self.0, serde_json::to_vec(v).unwrap());
    }
    fn clear(&self) {
        let _ = fs::write(&self.0, b"");
    }
}

fn parse_name(name: &str) -> (String, i64) {
    let parts: Vec<&str> = name.split('.').collect();
    if parts.len() == 3 && parts[1] == "bitcask" && (parts[2] == "data" || parts[2] == "hint") {
        if let Ok(id) = parts[0].parse::<i64>() {
            return (parts[2].to_string(), id);
        }
    }
    ("other".into(), -1)
}

fn sys_event(c: &Call) -> Value {
    if c.kind == "mark" {
        // the drop of the store inside a reopen has returned: what follows is the open
        return json!({"ev": "closed"});
    }
    let (kind, id) = parse_name(&c.file);
    json!({"ev": "sys", "call": c.kind, "kind": kind, "id": id, "file": c.file, "n": c.n, "res": c.res,
           "errno": c.errno, "injected": c.injected,
           "excl": c.flags & libc::O_EXCL != 0, "append": c.flags & libc::O_APPEND != 0,
           "trunc": c.flags & libc::O_TRUNC != 0, "tid": c.tid})
}

/// The directory as the effects of a prefix of calls: name -> bytes.
#[derive(Clone, Default)]
struct Image {
    files: BTreeMap<String, Vec<u8>>,
    /// length of each file at its last completed fsync
    synced: BTreeMap<String, usize>,
    /// every name that ever existed
    ever: BTreeSet<String>,
}

impl Image {
    /// Apply one recorded call; returns true when it changed the directory.
    fn apply(&mut self, c: &Call) -> bool {
        if c.res < 0 {
            return false;
        }
        match c.kind {
            "create" => {
                self.ever.insert(c.file.clone());
                if !self.files.contains_key(&c.file) {
                    self.files.insert(c.file.clone(), vec![]);
                    self.synced.insert(c.file.clone(), 0);
                    true
                } else {
                    false
                }
            }
            "write" => {
                let f = self.files.entry(c.file.clone()).or_default();
                f.extend_from_slice(&c.data[..(c.res as usize).min(c.data.len())]);
                c.res > 0
            }
            "fsync" => {
                let l = self.files.get(&c.file).map(|f| f.len()).unwrap_or(0);
                self.synced.insert(c.file.clone(), l);
                false
            }
            "unlink" => {
                self.synced.remove(&c.file);
                self.files.remove(&c.file).is_some()
            }
            _ => false,
        }
    }
    fn materialize(&self, dir: &Path, cuts: Option<&BTreeMap<String, usize>>) {
        fs::create_dir_all(dir).unwrap();
        for (name, bytes) in &self.files {
            let n = cuts.and_then(|c| c.get(name).copied()).unwrap_or(bytes.len()).min(bytes.len());
            fs::write(dir.join(name), &bytes[..n]).unwrap();
        }
    }
}

fn ids_in(dir: &Path) -> Vec<Value> {
    let mut v = vec![];
    for ext in ["data", "hint"] {
        for (id, _) in list_files(dir, ext) {
            v.push(json!([ext, id]));
        }
    }
    v
}

/// Open an image with the real code, read everything, then keep using it: one put and one
/// reopen.  Reports what was recovered and which files the continued use created.
fn file_bytes(dir: &Path) -> BTreeMap<String, Vec<u8>> {
    let mut m = BTreeMap::new();
    if let Ok(rd) = fs::read_dir(dir) {
        for e in rd.flatten() {
            m.insert(e.file_name().to_string_lossy().to_string(), fs::read(e.path()).unwrap_or_default());
        }
    }
    m
}

/// (--short-writes: fault mode fails every write ONLY the way a full device usually does - half of the bytes are
/// written, the retry of the rest fails with ENOSPC; these runs go to their own trace files)
static SHORT_WRITES: std::sync::atomic::AtomicBool = std::sync::atomic::AtomicBool::new(false);
/// (--no-aftermath: the probes stop after the put and the restart; for checks that only judge the calls)
static NO_AFTERMATH: std::sync::atomic::AtomicBool = std::sync::atomic::AtomicBool::new(false);

fn probe_image(dir: &Path, cfg: &SpecCfg, names: &Names, cont_key: &str, cont_val: &str, light: bool) -> Value {
    // (light: recovery, reads, a put and a restart only - the further cut sets of one power-loss boundary)
    let no_aftermath = light || NO_AFTERMATH.load(std::sync::atomic::Ordering::Relaxed);
    let before = ids_in(dir);
    let bytes_before = file_bytes(dir);
    // what recovery itself does to the directory is recorded as well
    shim::start(dir, false);
    shim::set_skip_fsync(true);
    let conf = cfg.real(dir, Knobs { concurrency: 1, cache: 4 });
    let r = std::panic::catch_unwind(std::panic::AssertUnwindSafe(move || conf.open()));
    let kv = match r {
        Ok(Ok(kv)) => kv,
        Ok(Err(e)) => {
            shim::stop();
            return json!({"opened": false, "err": format!("{e}"), "before": before});
        }
        Err(_) => {
            shim::stop();
            return json!({"opened": false, "err": "panic", "before": before});
        }
    };
    let h = kv.get_handle();
    let map = read_all(&h, names);
    let recovery_calls: Vec<Value> = shim::stop().iter().filter(|c| c.mutating()).map(sys_event).collect();
    // every file that existed before the open and still exists after it must be byte-identical (recovery may
    // remove files as a whole - what that does to the contents is judged by the reads -, it may not rewrite them)
    let bytes_after = file_bytes(dir);
    let modified: Vec<String> = bytes_before
        .iter()
        .filter(|(n, b)| bytes_after.get(*n).map(|a| a != *b).unwrap_or(false))
        .map(|(n, _)| n.clone())
        .collect();
    let after_open = ids_in(dir);
    // (all-eligible configurations, every second image) a merge pass right after recovery, before anything is written:
    // it must keep every key and leave the store exactly as large as its live data - torn tails, outputs of an unfinished
    // merge, whatever the failure left behind is reclaimed by the first merge that takes every file
    let mut premerge = json!({"done": false});
    let img_parity = bytes_before.values().map(|b| b.len()).sum::<usize>() + bytes_before.len();
    if cfg.th_small >= 1_000_000 && img_parity % 2 == 0 && !no_aftermath {
        let hh = h.clone();
        let res = match std::panic::catch_unwind(std::panic::AssertUnwindSafe(move || hh.verif_merge())) {
            Ok(Ok(())) => "ok".to_string(),
            Ok(Err(e)) => format!("err:{e}"),
            Err(_) => "panic".into(),
        };
        let gets = read_all(&h, names);
        let size: u64 = list_files(dir, "data").iter().map(|(_, p)| fs::metadata(p).map(|m| m.len()).unwrap_or(0)).sum();
        premerge = json!({"done": true, "res": res, "gets": gets, "size": size});
    }
    // continued use: a put, read back, reopen, read back
    let (k, v) = (names.key(cont_key), names.val(cont_val));
    let h2 = h.clone();
    let put = match std::panic::catch_unwind(std::panic::AssertUnwindSafe(move || h2.set(k, v))) {
        Ok(Ok(())) => "ok".to_string(),
        Ok(Err(e)) => format!("err:{e}"),
        Err(_) => "panic".into(),
    };
    let gets_after_put = read_all(&h, names);
    drop(kv);
    let conf = cfg.real(dir, Knobs { concurrency: 1, cache: 4 });
    let mut aft = json!({"done": false});
    let (reopened, gets_after_reopen) =
        match std::panic::catch_unwind(std::panic::AssertUnwindSafe(move || conf.open())) {
            Ok(Ok(kv2)) if no_aftermath => {
                let g = read_all(&kv2.get_handle(), names);
                drop(kv2);
                (true, g)
            }
            Ok(Ok(kv2)) => {
                let h3 = kv2.get_handle();
                let g = read_all(&h3, names);
                // aftermath: the recovered store is used like any other - deletes and overwrites (chosen from
                // the image's own bytes, so a replay repeats them), a merge pass, a restart, and a restart
                // without hint files
                let mut seedv: u64 = bytes_before.values().map(|b| b.len() as u64).sum::<u64>().wrapping_mul(2654435761).wrapping_add(bytes_before.len() as u64);
                let mut acts: Vec<Value> = vec![];
                let mut results: Vec<String> = vec![];
                for key in names.keys.keys() {
                    seedv = seedv.wrapping_mul(6364136223846793005).wrapping_add(1442695040888963407);
                    let r = (seedv >> 33) % 4;
                    let kb = names.key(key);
                    let hh = h3.clone();
                    if r < 2 {
                        acts.push(json!(["del", key]));
                        results.push(match std::panic::catch_unwind(std::panic::AssertUnwindSafe(move || hh.del(kb))) {
                            Ok(Ok(true)) => "true".into(),
                            Ok(Ok(false)) => "false".into(),
                            Ok(Err(e)) => format!("err:{e}"),
                            Err(_) => "panic".into(),
                        });
                    } else if r == 2 {
                        acts.push(json!(["put", key, cont_val]));
                        let vb = names.val(cont_val);
                        results.push(match std::panic::catch_unwind(std::panic::AssertUnwindSafe(move || hh.set(kb, vb))) {
                            Ok(Ok(())) => "ok".into(),
                            Ok(Err(e)) => format!("err:{e}"),
                            Err(_) => "panic".into(),
                        });
                    }
                }
                let hh = h3.clone();
                let merge = match std::panic::catch_unwind(std::panic::AssertUnwindSafe(move || hh.verif_merge())) {
                    Ok(Ok(())) => "ok".to_string(),
                    Ok(Err(e)) => format!("err:{e}"),
                    Err(_) => "panic".into(),
                };
                let gets3 = read_all(&h3, names);
                drop(h3);
                drop(kv2);
                let open_read = |d: &Path| -> Value {
                    let conf = cfg.real(d, Knobs { concurrency: 1, cache: 4 });
                    match std::panic::catch_unwind(std::panic::AssertUnwindSafe(move || conf.open())) {
                        Ok(Ok(kv3)) => {
                            let g = read_all(&kv3.get_handle(), names);
                            drop(kv3);
                            json!({"opened": true, "gets": g})
                        }
                        Ok(Err(e)) => json!({"opened": false, "err": format!("{e}")}),
                        Err(_) => json!({"opened": false, "err": "panic"}),
                    }
                };
                // the copy without hint files is taken before the restart (which creates a new active file)
                let nh = Scratch::new("nohint");
                let mut nhints = 0;
                for (name, bytes) in file_bytes(dir) {
                    if name.ends_with(".hint") {
                        nhints += 1;
                    } else {
                        fs::write(nh.path().join(&name), bytes).unwrap();
                    }
                }
                let with_hints = open_read(dir);
                let without_hints = open_read(nh.path());
                aft = json!({"done": true, "acts": acts, "results": results, "merge": merge, "gets3": gets3,
                             "hints": nhints, "with": with_hints, "without": without_hints});
                (true, g)
            }
            _ => (false, json!({})),
        };
    let after_all = ids_in(dir);
    json!({"opened": true, "map": map, "before": before, "after_open": after_open,
           "recovery_calls": recovery_calls, "modified_by_recovery": modified,
           "cont": {"k": cont_key, "v": cont_val, "put": put, "gets": gets_after_put,
                    "reopened": reopened, "gets2": gets_after_reopen, "after": after_all},
           "aft": aft, "premerge": premerge})
}

/// ["clock", secs]: the wall clock is stepped; not an operation of the store (no event, no call)
fn clock_step(op: &[String]) -> bool {
    if op[0] == "clock" {
        shim::set_clock_skew(op[1].parse::<i64>().expect("clock skew"));
        true
    } else {
        false
    }
}

fn do_op(
    op: &[String],
    h: &mut bitcask::storage::bitcask::Handle,
    kv: &mut Option<bitcask::storage::bitcask::Bitcask>,
    dir: &Path,
    cfg: &SpecCfg,
    names: &Names,
) -> String {
    match op[0].as_str() {
        "put" => {
            let (k, v) = (names.key(&op[1]), names.val(&op[2]));
            let h2 = h.clone();
            match std::panic::catch_unwind(std::panic::AssertUnwindSafe(move || h2.set(k, v))) {
                Ok(Ok(())) => "ok".into(),
                Ok(Err(e)) => format!("err:{e}"),
                Err(_) => "panic".into(),
            }
        }
        "del" => {
            let k = names.key(&op[1]);
            let h2 = h.clone();
            match std::panic::catch_unwind(std::panic::AssertUnwindSafe(move || h2.del(k))) {
                Ok(Ok(true)) => "true".into(),
                Ok(Ok(false)) => "false".into(),
                Ok(Err(e)) => format!("err:{e}"),
                Err(_) => "panic".into(),
            }
        }
        "merge" => {
            let h2 = h.clone();
            match std::panic::catch_unwind(std::panic::AssertUnwindSafe(move || h2.verif_merge())) {
                Ok(Ok(())) => "ok".into(),
                Ok(Err(e)) => format!("err:{e}"),
                Err(_) => "panic".into(),
            }
        }
        "reopen" => {
            drop(kv.take());
            shim::mark("closed");
            match open_store(dir, cfg, Knobs { concurrency: 1, cache: 4 }) {
                Ok(n) => {
                    *h = n.get_handle();
                    *kv = Some(n);
                    "ok".into()
                }
                Err(e) => e,
            }
        }
        o => panic!("unknown op {o}"),
    }
}

fn op_event(ev: &str, op: &[String]) -> Value {
    let mut e = json!({"ev": ev, "op": op[0]});
    if op.len() > 1 {
        e["k"] = json!(op[1]);
    }
    if op.len() > 2 {
        e["v"] = json!(op[2]);
    }
    e
}

/// crash / power: run once with recording, then probe every boundary.
fn run_crash(b: &Behaviour, names: &Names, power: bool, max_points: usize, rng: &mut Rng, out: &mut TraceOut, pend: &Pending) -> (u64, u64) {
    if let Some(bu) = b.burst {
        // a replay of one particular run with failing fsyncs
        let (c, p, _) = run_crash_with(b, names, power, max_points, Some(bu), rng, out, pend);
        return (c, p);
    }
    let (mut calls, mut probes, nfsync) = run_crash_with(b, names, power, max_points, None, rng, out, pend);
    if power && nfsync > 0 {
        // power loss meets a device that refuses to sync: the fsync at a seeded position and up to two after it
        // fail (a burst of one, two or three).  Whatever the store does about that, what it acknowledges must be durable.
        let first = rng.below(nfsync);
        let len = 1 + rng.below(3) as u32;
        let (c, p, _) = run_crash_with(b, names, power, max_points.min(60), Some((first, len)), rng, out, pend);
        calls += c;
        probes += p;
    }
    if power && rng.below(3) == 0 {
        // a chain of merge passes behind the behaviour, the first of them meeting a short burst of failing fsyncs:
        // what a failed merge leaves behind (outputs that were never forced to disk, entries already re-pointed
        // into them) meets the next merges, one of which may fail too, and then the power fails
        let mut ext = b.clone();
        for _ in 0..3 {
            ext.ops.push(vec!["merge".to_string()]);
        }
        ext.id = format!("{}+chain", b.id);
        let first = nfsync + rng.below(3);
        let len = 1 + rng.below(2) as u32;
        let (c, p, _) = run_crash_with(&ext, names, power, max_points.min(80), Some((first, len)), rng, out, pend);
        calls += c;
        probes += p;
    }
    (calls, probes)
}

#[allow(clippy::too_many_arguments)]
fn run_crash_with(b: &Behaviour, names: &Names, power: bool, max_points: usize, burst: Option<(u64, u32)>, rng: &mut Rng, out: &mut TraceOut,
                  pend: &Pending) -> (u64, u64, u64) {
    shim::set_clock_skew(0);
    let sc = Scratch::new("fs");
    let dir = sc.path().to_path_buf();
    let knobs = Knobs { concurrency: 1, cache: 4 };
    shim::start(&dir, true);
    shim::set_skip_fsync(true);
    if let Some((first, len)) = burst {
        shim::fail_fsync_burst(first, len, libc::ENOSPC);
    }
    let mode = if burst.is_some() { "powerfault" } else if power { "power" } else { "crash" };
    let run_id = match burst { Some((f, l)) => format!("{}#burst{}x{}", b.id, f, l), None => b.id.clone() };
    pend.set(&json!({"ev": "reset", "run": b.id, "phase": "op"}));
    let mut kv = match open_store(&dir, &b.cfg, knobs) {
        Ok(kv) => Some(kv),
        Err(e) => {
            shim::stop();
            out.emit(&json!({"ev": "reset", "run": run_id, "cfg": b.cfg, "res": e, "mode": mode}));
            return (0, 0, 0);
        }
    };
    let mut h = kv.as_ref().unwrap().get_handle();
    // program-ordered list: (event json, calls issued during it)
    let mut steps: Vec<(Value, Vec<Call>, Value)> = vec![];
    let open_calls = shim::take_calls();
    steps.push((json!({"ev": "inv", "op": "open"}), open_calls, json!({"ev": "ret", "op": "open", "res": "ok", "gets": read_all(&h, names)})));
    let _ = shim::take_calls();
    for op in &b.ops {
        if clock_step(op) {
            continue;
        }
        // the runs with failing fsyncs are about ONE process that keeps running until the power fails: a
        // restart forgets which files an earlier failure left unsynced (DESIGN section 8), so it is not
        // part of that scenario
        if burst.is_some() && op[0] == "reopen" {
            continue;
        }
        let mut note = op_event("inv", op);
        note["run"] = json!(b.id);
        note["phase"] = json!("op");
        pend.set(&note);
        let res = do_op(op, &mut h, &mut kv, &dir, &b.cfg, names);
        let calls = shim::take_calls();
        let mut ret = op_event("ret", op);
        ret["res"] = json!(res);
        if kv.is_some() {
            ret["gets"] = read_all(&h, names);
            ret["st"] = full_state(&h, &dir, names);
        }
        let _ = shim::take_calls(); // reads issue read-only opens only
        steps.push((op_event("inv", op), calls, ret));
        if kv.is_none() {
            break;
        }
    }
    drop(kv);
    shim::stop();
    pend.clear();

    // emit in program order with a probe after every call that changed the directory
    out.emit(&json!({"ev": "reset", "run": run_id, "cfg": b.cfg, "res": "ok", "mode": mode, "ops": b.ops, "burst": burst.map(|x| json!([x.0, x.1])).unwrap_or(json!([]))}));
    let nfsync: u64 = steps.iter().map(|s| s.1.iter().filter(|c| c.kind == "fsync").count() as u64).sum();
    let total_mut: usize = steps.iter().map(|s| s.1.iter().filter(|c| c.mutating()).count()).sum();
    // when there are more boundaries than the budget, probe a random subset (always the first few)
    let stride_keep = |idx: usize, rng: &mut Rng| -> bool {
        total_mut <= max_points || idx < 4 || rng.below(total_mut as u64) < max_points as u64
    };
    let keys: Vec<&String> = names.keys.keys().collect();
    let vals: Vec<&String> = names.vals.keys().collect();
    let mut img = Image::default();
    let (mut nprobe, mut ncalls) = (0u64, 0u64);
    let mut j = 0usize;
    for (inv, calls, ret) in &steps {
        out.emit(inv);
        for c in calls {
            out.emit(&sys_event(c));
            if !c.mutating() {
                continue;
            }
            ncalls += 1;
            j += 1;
            let changed = img.apply(c);
            if !(changed || (power && c.kind == "fsync")) || !stride_keep(j, rng) {
                continue;
            }
            let ck = (*rng.pick(&keys)).clone();
            let cv = (*rng.pick(&vals)).clone();
            if !power {
                let isc = Scratch::new("img");
                img.materialize(isc.path(), None);
                pend.set(&json!({"ev": "crash", "j": j, "run": b.id, "phase": "probe"}));
                let rec = probe_image(isc.path(), &b.cfg, names, &ck, &cv, false);
                pend.clear();
                out.emit(&json!({"ev": "crash", "j": j, "rec": rec}));
                nprobe += 1;
            } else {
                // cut sets: everything back to its last fsync; each file alone; two random mixes
                let mut cutsets: Vec<BTreeMap<String, usize>> = vec![];
                let all: BTreeMap<String, usize> =
                    img.files.keys().map(|n| (n.clone(), *img.synced.get(n).unwrap_or(&0))).collect();
                let lossy: Vec<&String> = img.files.iter().filter(|(n, b)| all[*n] < b.len()).map(|(n, _)| n).collect();
                cutsets.push(BTreeMap::new()); // nothing lost (= crash image)
                if !lossy.is_empty() {
                    cutsets.push(all.clone());
                    if lossy.len() > 1 {
                        for n in &lossy {
                            cutsets.push([((*n).clone(), all[*n])].into_iter().collect());
                        }
                        for _ in 0..2 {
                            let mut m = BTreeMap::new();
                            for n in &lossy {
                                let full = img.files[*n].len();
                                let lo = all[*n];
                                m.insert((*n).clone(), lo + rng.below((full - lo + 1) as u64) as usize);
                            }
                            cutsets.push(m);
                        }
                    } else {
                        // one lossy file: also a torn cut in the middle of the unsynced suffix
                        let n = lossy[0];
                        let (lo, full) = (all[n], img.files[n].len());
                        if full - lo > 1 {
                            cutsets.push([(n.clone(), lo + 1 + rng.below((full - lo - 1) as u64) as usize)].into_iter().collect());
                        }
                    }
                }
                for (ci, cuts) in cutsets.into_iter().enumerate() {
                    let isc = Scratch::new("img");
                    img.materialize(isc.path(), Some(&cuts));
                    pend.set(&json!({"ev": "power", "j": j, "run": b.id, "phase": "probe"}));
                    // the full aftermath for the kill image, the everything-back-to-its-last-fsync image and one more
                    let rec = probe_image(isc.path(), &b.cfg, names, &ck, &cv, ci > 2);
                    pend.clear();
                    out.emit(&json!({"ev": "power", "j": j, "cuts": cuts, "rec": rec}));
                    nprobe += 1;
                }
            }
        }
        out.emit(ret);
    }
    (ncalls, nprobe, nfsync)
}

/// fault: learn the number of mutating calls from a clean run, then fail each one once.
fn run_fault(b: &Behaviour, names: &Names, max_points: usize, only_op: Option<&str>, rng: &mut Rng, out: &mut TraceOut, pend: &Pending) -> (u64, u64) {
    let knobs = Knobs { concurrency: 1, cache: 4 };
    // clean run to count the calls (and, for --only-op, to learn which calls an operation of that kind issues)
    let mut eligible: Vec<bool> = vec![];
    let mut kinds: Vec<&'static str> = vec![];
    let short_only = SHORT_WRITES.load(std::sync::atomic::Ordering::Relaxed);
    let total = {
        shim::set_clock_skew(0);
        let sc = Scratch::new("fs");
        let dir = sc.path().to_path_buf();
        shim::start(&dir, false);
        shim::set_skip_fsync(true);
        let mut kv = match open_store(&dir, &b.cfg, knobs) {
            Ok(kv) => Some(kv),
            Err(_) => {
                shim::stop();
                return (0, 0);
            }
        };
        let mut h = kv.as_ref().unwrap().get_handle();
        for op in &b.ops {
            if clock_step(op) {
                continue;
            }
            let before = shim::mutating_seen() as usize;
            let _ = do_op(op, &mut h, &mut kv, &dir, &b.cfg, names);
            let after = shim::mutating_seen() as usize;
            eligible.resize(after, false);
            for e in eligible.iter_mut().take(after).skip(before) {
                *e = only_op.map(|o| o == op[0]).unwrap_or(true);
            }
            if kv.is_none() {
                break;
            }
        }
        drop(kv);
        let n = shim::mutating_seen();
        kinds = shim::stop().iter().filter(|c| c.mutating()).map(|c| c.kind).collect();
        n as usize
    };
    let mut nruns = 0u64;
    for j in 0..total {
        if only_op.is_some() && !eligible.get(j).copied().unwrap_or(false) {
            continue;
        }
        if total > max_points && j >= 2 && rng.below(total as u64) >= max_points as u64 {
            continue;
        }
        let variants: &[(i32, &str)] = if short_only { &[(-libc::ENOSPC, "SHORT")] } else { &[(libc::ENOSPC, "ENOSPC"), (libc::EIO, "EIO")] };
        if short_only && kinds.get(j).copied() != Some("write") {
            continue;
        }
        for &(errno, ename) in variants {
            shim::set_clock_skew(0);
        let sc = Scratch::new("fs");
            let dir = sc.path().to_path_buf();
            shim::start(&dir, false);
            shim::set_skip_fsync(true);
            shim::fail_at(j as u64, errno);
            pend.set(&json!({"ev": "reset", "run": b.id, "phase": "op", "fault": j}));
            let opened = open_store(&dir, &b.cfg, knobs);
            let open_calls = shim::take_calls();
            out.emit(&json!({"ev": "reset", "run": format!("{}#f{}{}", b.id, j, ename), "cfg": b.cfg, "mode": "fault", "ops": b.ops,
                             "fault": j, "errno": ename, "res": "ok"}));
            out.emit(&json!({"ev": "inv", "op": "open"}));
            for c in &open_calls {
                out.emit(&sys_event(c));
            }
            let mut kv = match opened {
                Ok(kv) => Some(kv),
                Err(e) => {
                    out.emit(&json!({"ev": "ret", "op": "open", "res": e}));
                    // the fault hit the very first create: a second open must work
                    match open_store(&dir, &b.cfg, knobs) {
                        Ok(kv) => {
                            out.emit(&json!({"ev": "inv", "op": "open"}));
                            for c in &shim::take_calls() {
                                out.emit(&sys_event(c));
                            }
                            Some(kv)
                        }
                        Err(e2) => {
                            out.emit(&json!({"ev": "inv", "op": "open"}));
                            out.emit(&json!({"ev": "ret", "op": "open", "res": e2}));
                            shim::stop();
                            continue;
                        }
                    }
                }
            };
            let mut h = kv.as_ref().unwrap().get_handle();
            out.emit(&json!({"ev": "ret", "op": "open", "res": "ok", "gets": read_all(&h, names)}));
            let _ = shim::take_calls();
            for op in &b.ops {
                if clock_step(op) {
                    continue;
                }
                let mut note = op_event("inv", op);
                note["run"] = json!(b.id);
                note["phase"] = json!("op");
                note["fault"] = json!(j);
                pend.set(&note);
                out.emit(&op_event("inv", op));
                let res = do_op(op, &mut h, &mut kv, &dir, &b.cfg, names);
                for c in &shim::take_calls() {
                    out.emit(&sys_event(c));
                }
                let mut ret = op_event("ret", op);
                ret["res"] = json!(res);
                if kv.is_none() && op[0] == "reopen" {
                    // a failed open is reported; the store object is gone, so open again (no fault left)
                    out.emit(&ret);
                    out.emit(&op_event("inv", op));
                    let res2 = do_op(op, &mut h, &mut kv, &dir, &b.cfg, names);
                    for c in &shim::take_calls() {
                        out.emit(&sys_event(c));
                    }
                    ret = op_event("ret", op);
                    ret["res"] = json!(res2);
                }
                if kv.is_some() {
                    note["phase"] = json!("gets");
                    pend.set(&note);
                    ret["gets"] = read_all(&h, names);
                    // the private state and the files, for the mechanism-level validation of the error paths
                    ret["st"] = full_state(&h, &dir, names);
                    let _ = shim::take_calls();
                }
                out.emit(&ret);
                if kv.is_none() {
                    break;
                }
            }
            // the directory as a close at this moment leaves it (every append has reached its file): it must open and
            // read correctly - with and without its hint files.  The probes run on copies, taken BEFORE the closing
            // merge below can tidy up what the failed call left behind.
            let _ = shim::take_calls();
            pend.set(&json!({"ev": "final", "run": b.id, "phase": "probe", "fault": j}));
            let (wh, nh) = (Scratch::new("withhint"), Scratch::new("nohint"));
            let mut nhints = 0;
            if let Ok(rd) = fs::read_dir(&dir) {
                for e in rd.flatten() {
                    let name = e.file_name().to_string_lossy().to_string();
                    let _ = fs::copy(e.path(), wh.path().join(&name));
                    if name.ends_with(".hint") {
                        nhints += 1;
                    } else {
                        let _ = fs::copy(e.path(), nh.path().join(&name));
                    }
                }
            }
            shim::stop();
            let rec = recover_in_place(wh.path(), &b.cfg, names);
            let rec_nh = recover_in_place(nh.path(), &b.cfg, names);
            pend.clear();
            out.emit(&json!({"ev": "final", "rec": rec, "hints": nhints, "rec_nohint": rec_nh}));
            // when every file is eligible by its size, one more merge pass (no fault is left) must leave the store
            // exactly as large as its live data: whatever the failed call left behind is reclaimed (C13)
            if kv.is_some() && b.cfg.th_small >= 1_000_000 {
                let mut note = json!({"ev": "inv", "op": "merge", "run": b.id, "phase": "op", "fault": j});
                pend.set(&note);
                let h2 = h.clone();
                let res = match std::panic::catch_unwind(std::panic::AssertUnwindSafe(move || h2.verif_merge())) {
                    Ok(Ok(())) => "ok".to_string(),
                    Ok(Err(e)) => format!("err:{e}"),
                    Err(_) => "panic".into(),
                };
                note["phase"] = json!("gets");
                pend.set(&note);
                let gets = read_all(&h, names);
                let size: u64 = list_files(&dir, "data").iter().map(|(_, p)| fs::metadata(p).map(|m| m.len()).unwrap_or(0)).sum();
                pend.clear();
                out.emit(&json!({"ev": "fullmerge", "res": res, "gets": gets, "size": size}));
            }
            drop(kv);
            nruns += 1;
        }
    }
    (total as u64, nruns)
}

fn main() {
    bcverif::shim::init();
    quiet_panics();
    let args: Vec<String> = std::env::args().collect();
    if args.len() < 4 {
        eprintln!("usage: fsdrive crash|power|fault <behaviours.jsonl> <out-prefix> --shard i/n [--seed N] [--max-points N]");
        std::process::exit(2);
    }
    let mode = args[1].as_str();
    let seed: u64 = arg_val(&args, "--seed").and_then(|s| s.parse().ok()).unwrap_or(1);
    let max_points: usize = arg_val(&args, "--max-points").and_then(|s| s.parse().ok()).unwrap_or(1_000_000);
    // fault mode: fail only the calls issued by operations of this kind (e.g. merge)
    let only_op: Option<String> = arg_val(&args, "--only-op");
    NO_AFTERMATH.store(args.iter().any(|a| a == "--no-aftermath"), std::sync::atomic::Ordering::Relaxed);
    SHORT_WRITES.store(args.iter().any(|a| a == "--short-writes"), std::sync::atomic::Ordering::Relaxed);
    let shard = arg_val(&args, "--shard").unwrap_or_else(|| "0/1".into());
    let (si, sn): (usize, usize) = {
        let mut it = shard.split('/');
        (it.next().unwrap().parse().unwrap(), it.next().unwrap().parse().unwrap())
    };
    let text = fs::read_to_string(&args[2]).expect("behaviours file");
    let mut lines = text.lines().filter(|l| !l.trim().is_empty());
    let hdr: Value = serde_json::from_str(lines.next().expect("header")).expect("header json");
    let klen: BTreeMap<String, usize> = serde_json::from_value(hdr["keys"].clone()).unwrap();
    let vlen: BTreeMap<String, usize> = serde_json::from_value(hdr["vals"].clone()).unwrap();
    let names = Names::instantiate(&klen, &vlen, seed);
    let mut bs = vec![];
    for (i, l) in lines.enumerate() {
        let v: Value = serde_json::from_str(l).expect("behaviour json");
        let ops: Vec<Vec<String>> = v["ops"]
            .as_array()
            .unwrap()
            .iter()
            .map(|o| match o {
                Value::Array(a) => a.iter().map(|x| x.as_str().unwrap_or("").to_string()).collect(),
                o => {
                    let mut r = vec![o["op"].as_str().unwrap_or("").to_string()];
                    for f in ["k", "v"] {
                        if let Some(x) = o.get(f).and_then(|x| x.as_str()) {
                            r.push(x.to_string());
                        }
                    }
                    r
                }
            })
            .collect();
        bs.push(Behaviour {
            id: v.get("id").and_then(|x| x.as_str()).map(String::from).unwrap_or_else(|| format!("b{i}")),
            cfg: serde_json::from_value(v["cfg"].clone()).expect("cfg"),
            ops,
            burst: v.get("burst").and_then(|x| x.as_array()).filter(|a| a.len() == 2).map(|a| (a[0].as_u64().unwrap_or(0), a[1].as_u64().unwrap_or(1) as u32)),
        });
    }
    let prefix = PathBuf::from(&args[3]);
    let path = PathBuf::from(format!("{}.{}.ndjson", prefix.display(), si));
    let pend = Pending(PathBuf::from(format!("{}.{}.pending", prefix.display(), si)));
    let mut out = TraceOut::create(&path);
    out.emit(&names.header());
    let mut rng = Rng::new(seed.wrapping_add(si as u64 * 104729));
    let (mut calls, mut probes, mut runs) = (0u64, 0u64, 0u64);
    for (i, b) in bs.iter().enumerate() {
        if i % sn != si {
            continue;
        }
        let (c, p) = match mode {
            "crash" => run_crash(b, &names, false, max_points, &mut rng, &mut out, &pend),
            "power" => run_crash(b, &names, true, max_points, &mut rng, &mut out, &pend),
            "fault" => run_fault(b, &names, max_points, only_op.as_deref(), &mut rng, &mut out, &pend),
            m => panic!("mode {m}"),
        };
        calls += c;
        probes += p;
        runs += 1;
    }
    let lines = out.finish();
    let _ = fs::remove_file(&pend.0);
    println!("{}", json!({"file": path.display().to_string(), "runs": runs, "calls": calls, "probes": probes, "lines": lines}));
}
