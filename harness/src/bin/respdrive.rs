//! RESP codec driver (C07 C08).
//!
//!   respdrive bytes <inputs.jsonl> <out-prefix> --shard i/n [--seed N] [--fuzz N]
//!       every input {"buf":[..]} is given to the real Frame::check and Frame::parse at cursor
//!       offset 0 and, padded, at offsets around the 18-digit window; plus seeded fuzz inputs,
//!       long digit strings and nesting stretches.  One observation per call.
//!   respdrive conn <streams.jsonl> <out-prefix> --shard i/n [--seed N]
//!       every stream {"frames":[..]} is written with the real Connection::write_frame and
//!       read back with Connection::read_frame under many segmentations and with end-of-stream
//!       at every position.
//!
//! The process may die inside the code under test (stack overflow, allocation failure): the
//! pending note lets the orchestrator record that as the outcome "abort".

use std::{
    collections::VecDeque,
    fs,
    io::Cursor,
    path::PathBuf,
    pin::Pin,
    task::{Context, Poll},
};

use bcverif::*;
use bitcask::net::{
    connection::Connection,
    frame::{Error as FrameError, Frame},
};
use bytes::Bytes;
use serde_json::{json, Value};
use tokio::io::{AsyncRead, AsyncWrite, ReadBuf};

fn arg_val(args: &[String], name: &str) -> Option<String> {
    args.iter().position(|a| a == name).and_then(|i| args.get(i + 1).cloned())
}

/// The note is rewritten in place (one pwrite + one ftruncate, no open/close per note).
struct Pending(PathBuf, fs::File);
impl Pending {
    fn new(p: PathBuf) -> Pending {
        let f = fs::File::create(&p).expect("pending file");
        Pending(p, f)
    }
    fn set(&self, v: &Value) {
        use std::os::unix::fs::FileExt;
        let b = serde_json::to_vec(v).unwrap();
        let _ = self.1.write_all_at(&b, 0);
        let _ = self.1.set_len(b.len() as u64);
    }
    fn clear(&self) {
        let _ = self.1.set_len(0);
    }
}

fn int_json(i: i64) -> Value {
    let s = i.to_string();
    let (neg, d) = match s.strip_prefix('-') {
        Some(r) => (true, r),
        None => (false, s.as_str()),
    };
    json!({"neg": neg, "digits": d.bytes().map(|b| b as u64).collect::<Vec<_>>()})
}

fn bytes_json(b: &[u8]) -> Value {
    json!(b.iter().map(|x| *x as u64).collect::<Vec<_>>())
}

fn frame_json(f: &Frame) -> Value {
    match f {
        Frame::SimpleString(s) => json!({"t": "simple", "s": bytes_json(s.as_bytes())}),
        Frame::Error(s) => json!({"t": "error", "s": bytes_json(s.as_bytes())}),
        Frame::Integer(i) => json!({"t": "int", "v": int_json(*i)}),
        Frame::BulkString(b) => json!({"t": "bulk", "b": bytes_json(b)}),
        Frame::Null => json!({"t": "null"}),
        Frame::Array(items) => json!({"t": "array", "items": items.iter().map(frame_json).collect::<Vec<_>>()}),
        #[allow(unreachable_patterns)]
        _ => json!({"t": "other"}),
    }
}

fn json_bytes(v: &Value) -> Vec<u8> {
    v.as_array().map(|a| a.iter().map(|x| x.as_u64().unwrap_or(0) as u8).collect()).unwrap_or_default()
}

fn json_frame(v: &Value) -> Frame {
    match v["t"].as_str().unwrap_or("") {
        "simple" => Frame::SimpleString(String::from_utf8_lossy(&json_bytes(&v["s"])).to_string()),
        "error" => Frame::Error(String::from_utf8_lossy(&json_bytes(&v["s"])).to_string()),
        "int" => {
            let d = String::from_utf8(json_bytes(&v["v"]["digits"])).unwrap();
            let s = if v["v"]["neg"].as_bool().unwrap_or(false) { format!("-{d}") } else { d };
            Frame::Integer(s.parse::<i64>().expect("i64 in range"))
        }
        "bulk" => Frame::BulkString(Bytes::from(json_bytes(&v["b"]))),
        "null" => Frame::Null,
        "array" => Frame::Array(v["items"].as_array().unwrap().iter().map(json_frame).collect()),
        t => panic!("frame type {t}"),
    }
}

fn err_class(e: &FrameError) -> &'static str {
    match e {
        FrameError::Incomplete => "inc",
        FrameError::BadEncoding => "bad",
        FrameError::NotInteger(_) => "notint",
        FrameError::NotUtf8(_) => "utf8",
        // (error variants are not fixed by any property: a new one is just another class)
        #[allow(unreachable_patterns)]
        _ => "other",
    }
}

fn run_check(buf: &[u8], off: usize) -> Value {
    let r = std::panic::catch_unwind(|| {
        let mut c = Cursor::new(buf);
        c.set_position(off as u64);
        let r = Frame::check(&mut c);
        (r, c.position())
    });
    match r {
        Ok((Ok(()), pos)) => json!({"kind": "ok", "next": pos}),
        Ok((Err(FrameError::Incomplete), _)) => json!({"kind": "inc"}),
        Ok((Err(e), _)) => json!({"kind": "err", "class": err_class(&e)}),
        Err(_) => json!({"kind": "panic"}),
    }
}

fn run_parse(buf: &[u8], off: usize) -> Value {
    let r = std::panic::catch_unwind(|| {
        let mut c = Cursor::new(buf);
        c.set_position(off as u64);
        let r = Frame::parse(&mut c);
        (r, c.position())
    });
    match r {
        Ok((Ok(f), pos)) => json!({"kind": "ok", "next": pos, "frame": frame_json(&f)}),
        Ok((Err(FrameError::Incomplete), _)) => json!({"kind": "inc"}),
        Ok((Err(e), _)) => json!({"kind": "err", "class": err_class(&e)}),
        Err(_) => json!({"kind": "panic"}),
    }
}

fn observe(buf: &[u8], off: usize, tag: &str, out: &mut TraceOut, pend: &Pending) {
    pend.set(&json!({"ev": "bytes", "tag": tag, "buf": bytes_json(buf), "off": off, "phase": "check"}));
    let c = run_check(buf, off);
    let p = run_parse(buf, off);
    out.emit(&json!({"ev": "bytes", "tag": tag, "buf": bytes_json(buf), "off": off, "check": c, "parse": p}));
}

const ALPHA: &[u8] = b"+-:$*0129\r\na\x00\x80\xff 5";

fn nest(k: usize, inner: &[u8]) -> Vec<u8> {
    let mut v = Vec::with_capacity(k * 4 + inner.len());
    for _ in 0..k {
        v.extend_from_slice(b"*1\r\n");
    }
    v.extend_from_slice(inner);
    v
}

fn bytes_mode(inputs: &[Vec<u8>], seed: u64, fuzz: usize, si: usize, sn: usize, out: &mut TraceOut, pend: &Pending) -> u64 {
    let mut n = 0u64;
    let mut rng = Rng::new(seed.wrapping_add(si as u64 * 31));
    for (i, b) in inputs.iter().enumerate() {
        if i % sn != si {
            continue;
        }
        observe(b, 0, "gen", out, pend);
        n += 1;
        // the same bytes further into the buffer: the outcome must only shift
        if i % 7 == (seed as usize) % 7 || b.iter().filter(|x| x.is_ascii_digit()).count() >= 2 {
            for off in [1usize, 17, 18, 19, 40] {
                let mut padded: Vec<u8> = (0..off).map(|_| *rng.pick(ALPHA)).collect();
                padded.extend_from_slice(b);
                observe(&padded, off, "gen+pad", out, pend);
                n += 1;
            }
        }
    }
    // directed stretches and fuzz (split over the shards)
    let mut extra: Vec<(String, Vec<u8>, usize)> = vec![];
    let bounds = ["9223372036854775807", "9223372036854775808", "9223372036854775806", "9223372036854775809",
                  "922337203685477580", "92233720368547758070", "18446744073709551616", "184467440737095516165",
                  "000000000000000000009223372036854775807", "99999999999999999999999", "0", "00", "1"];
    for lead in [":", "$", "*"] {
        for sign in ["", "-", "+"] {
            for d in bounds {
                for tail in ["\r\n", "\r", "", "\rX", "x\r\n"] {
                    let s = format!("{lead}{sign}{d}{tail}");
                    for off in [0usize, 5, 18, 19, 30] {
                        let mut v: Vec<u8> = vec![b'0'; off];
                        v.extend_from_slice(s.as_bytes());
                        extra.push(("digits".into(), v, off));
                    }
                }
            }
        }
    }
    // digit runs of every length up to 40 ended by every kind of terminator byte (error texts echo them)
    for lead in [b':', b'$', b'*'] {
        for sign in [&b""[..], &b"-"[..], &b"+"[..]] {
            for nd in 0..=40usize {
                for term in [0x80u8, 0xff, b'x', b'\n', b' '] {
                    let mut v = vec![lead];
                    v.extend_from_slice(sign);
                    v.extend(std::iter::repeat(b'7').take(nd));
                    v.push(term);
                    v.extend_from_slice(b"\r\n+OK\r\n");
                    extra.push(("digitrun".into(), v, 0));
                }
            }
        }
    }
    // every byte value in and around a digit position (what counts as a digit is a byte-level decision)
    for lead in [b':', b'$', b'*'] {
        for b in 0..=255u8 {
            for pat in 0..4 {
                let mut v = vec![lead];
                match pat {
                    0 => v.push(b),
                    1 => v.extend_from_slice(&[b'1', b]),
                    2 => v.extend_from_slice(&[b, b'1']),
                    _ => v.extend_from_slice(&[b'-', b]),
                }
                v.extend_from_slice(b"\r\n");
                if lead == b'$' {
                    v.extend_from_slice(&[b'x'; 12]);
                    v.extend_from_slice(b"\r\n");
                }
                extra.push(("anybyte".into(), v, 0));
            }
        }
    }
    // the same inside LONG numbers (readers that take several digits at a time decide per block, not per byte):
    // the bytes next to '0'..'9' and a few others at every position of numbers of 7..20 characters, and every byte
    // value at the first, second, middle and last two positions of numbers of 8, 9, 16, 17 and 20 characters
    {
        let near: [u8; 16] = [0x2f, 0x3a, 0x3b, 0x3c, 0x3d, 0x3e, 0x3f, 0x40, 0x20, 0x00, 0x80, 0xb2, 0xff, b'\n', b'-', b'+'];
        let digits = b"12345678901234567890";
        let mut push = |lead: u8, sign: &[u8], len: usize, at: usize, b: u8, extra: &mut Vec<(String, Vec<u8>, usize)>| {
            let mut v = vec![lead];
            v.extend_from_slice(sign);
            v.extend_from_slice(&digits[..len]);
            v[1 + sign.len() + at] = b;
            v.extend_from_slice(b"\r\n");
            if lead == b'$' {
                v.extend_from_slice(&[b'x'; 16]);
                v.extend_from_slice(b"\r\n");
            }
            extra.push(("anybyte-long".into(), v, 0));
        };
        for lead in [b':', b'$', b'*'] {
            for sign in [&b""[..], &b"-"[..]] {
                for len in [7usize, 8, 9, 10, 15, 16, 17, 18, 19, 20] {
                    for at in 0..len {
                        for b in near {
                            push(lead, sign, len, at, b, &mut extra);
                        }
                    }
                }
            }
            for len in [8usize, 9, 16, 17, 20] {
                for at in [0, 1, len / 2, len - 2, len - 1] {
                    for b in 0..=255u8 {
                        push(lead, b"", len, at, b, &mut extra);
                    }
                }
            }
        }
    }
    // absurd lengths NESTED: k array headers in a row whose declared lengths are near the top of i64 (whatever a reader
    // keeps about the frames still to come, sums of such lengths leave every machine integer), alone, followed by an
    // element, and followed by an absurd bulk header
    for n in ["9223372036854775807", "9223372036854775806", "4611686018427387904", "6148914691236517206", "18446744073709551615", "4294967296", "2147483648"] {
        for k in 1..=5usize {
            for tail in ["", ":1\r\n", "$9223372036854775807\r\n", "*0\r\n", "$1\r\na\r\n"] {
                let mut v: Vec<u8> = vec![];
                for _ in 0..k {
                    v.extend_from_slice(format!("*{n}\r\n").as_bytes());
                }
                v.extend_from_slice(tail.as_bytes());
                extra.push(("nested-absurd".into(), v, 0));
            }
        }
    }
    // the null bulk header and its neighbours, alone and followed by another frame
    for h in ["$-1\r\n", "$-01\r\n", "$-001\r\n", "$-0\r\n\r\n", "$-0\r\n", "$-00\r\n\r\n", "$-1x\r\n", "$--1\r\n", "$-10\r\n", "$-\r\n\r\n",
              "$-1\r\r\n", "$+1\r\na\r\n", "$-+1\r\n", "$- 1\r\n", "$-1\n\r\n", "$-2\r\n"] {
        for tail in ["", ":7\r\n", "+OK\r\n"] {
            for pre in ["", "*1\r\n", "*2\r\n:1\r\n"] {
                extra.push(("nullhdr".into(), format!("{pre}{h}{tail}").into_bytes(), 0));
            }
        }
    }
    for k in [1usize, 2, 3, 40] {
        for inner in [&b":1\r\n"[..], &b"$1\r\na\r\n"[..], &b":1\r"[..], &b""[..], &b"?"[..]] {
            extra.push(("nest".into(), nest(k, inner), 0));
        }
    }
    for _ in 0..fuzz {
        let len = 1 + rng.below(40) as usize;
        let v: Vec<u8> = match rng.below(3) {
            0 => (0..len).map(|_| *rng.pick(ALPHA)).collect(),
            1 => {
                // a valid-looking command with one mutation
                let mut v = b"*3\r\n$3\r\nSET\r\n$1\r\nk\r\n$2\r\nv\r\n\r\n".to_vec();
                let at = rng.below(v.len() as u64) as usize;
                match rng.below(3) {
                    0 => v[at] = *rng.pick(ALPHA),
                    1 => v.truncate(at),
                    _ => v.insert(at, *rng.pick(ALPHA)),
                }
                v
            }
            _ => {
                let mut v = vec![*rng.pick(b"+-:$*")];
                v.extend((0..len).map(|_| *rng.pick(ALPHA)));
                v
            }
        };
        let off = if rng.below(4) == 0 { rng.below(v.len() as u64) as usize } else { 0 };
        extra.push(("fuzz".into(), v, off));
    }
    for (i, (tag, v, off)) in extra.iter().enumerate() {
        if i % sn != si {
            continue;
        }
        observe(v, *off, tag, out, pend);
        n += 1;
    }
    // nesting far beyond the limit: too long for the trace, recorded by its shape
    if si == 0 {
        for (k, complete) in [(127usize, true), (127, false), (128, true), (128, false), (129, true), (129, false),
                              (130, true), (200, false), (1000, true), (100_000, true), (200_000, false), (1_000_000, true)] {
            let v = nest(k, if complete { b":1\r\n" } else { b"" });
            pend.set(&json!({"ev": "deepnest", "k": k, "complete": complete, "phase": "check"}));
            let c = run_check(&v, 0);
            pend.set(&json!({"ev": "deepnest", "k": k, "complete": complete, "phase": "parse", "check": c}));
            let p = run_parse(&v, 0);
            pend.clear();
            out.emit(&json!({"ev": "deepnest", "k": k, "complete": complete, "check": c,
                             "parse": {"kind": p["kind"], "class": p.get("class").cloned().unwrap_or(json!("-"))}}));
            n += 1;
        }
        // long runs of one repeated unit (every byte of the alphabet, line breaks, the shortest frames of
        // every type): cost and stack use must not grow with the length of the run.  Recorded by shape;
        // the same unit repeated 64 times is judged in full as an ordinary observation.
        let mut units: Vec<Vec<u8>> = ALPHA.iter().map(|b| vec![*b]).collect();
        for u in ["\r\n", ":1\r\n", "$0\r\n\r\n", "+\r\n", "-\r\n", "$-1\r\n", "*0\r\n", "*-1\r\n", "*2\r\n", "$1\r\n", "\n\r", " \r\n"] {
            units.push(u.as_bytes().to_vec());
        }
        units.sort();
        units.dedup();
        for u in &units {
            let short: Vec<u8> = u.iter().copied().cycle().take(u.len() * 64).collect();
            observe(&short, 0, "run64", out, pend);
            let rc = run_check(&short, 0);
            let rp = run_parse(&short, 0);
            let k = (1usize << 20) / u.len();
            let long: Vec<u8> = u.iter().copied().cycle().take(u.len() * k).collect();
            pend.set(&json!({"ev": "longrun", "unit": bytes_json(u), "k": k, "phase": "check"}));
            let c = run_check(&long, 0);
            pend.set(&json!({"ev": "longrun", "unit": bytes_json(u), "k": k, "phase": "parse", "check": c}));
            let p = run_parse(&long, 0);
            pend.clear();
            out.emit(&json!({"ev": "longrun", "unit": bytes_json(u), "k": k, "check": {"kind": c["kind"]}, "ref_check": {"kind": rc["kind"]},
                             "parse": {"kind": p["kind"], "class": p.get("class").cloned().unwrap_or(json!("-"))},
                             "ref_parse": {"kind": rp["kind"], "class": rp.get("class").cloned().unwrap_or(json!("-"))}}));
            n += 2;
        }
        // absurd declared lengths: never allocate or loop on the declared size
        for s in ["*1000000000000\r\n", "*9223372036854775807\r\n", "$9223372036854775807\r\nab", "$9223372036854775806\r\n",
                  "*2147483648\r\n:1\r\n", "*4294967296\r\n"] {
            observe(s.as_bytes(), 0, "absurd", out, pend);
            n += 1;
        }
    }
    n
}

/// An in-memory stream that hands out the given segments one read at a time, then EOF.
struct SegStream {
    segs: VecDeque<Vec<u8>>,
    written: Vec<u8>,
    /// a write accepts at most this many bytes (0 = everything): transports take short writes
    max_write: usize,
}
impl AsyncRead for SegStream {
    fn poll_read(mut self: Pin<&mut Self>, _cx: &mut Context<'_>, buf: &mut ReadBuf<'_>) -> Poll<std::io::Result<()>> {
        loop {
            match self.segs.front_mut() {
                None => return Poll::Ready(Ok(())), // EOF
                Some(seg) if seg.is_empty() => {
                    self.segs.pop_front();
                }
                Some(seg) => {
                    let n = seg.len().min(buf.remaining());
                    buf.put_slice(&seg[..n]);
                    seg.drain(..n);
                    if seg.is_empty() {
                        self.segs.pop_front();
                    }
                    return Poll::Ready(Ok(()));
                }
            }
        }
    }
}
impl AsyncWrite for SegStream {
    fn poll_write(mut self: Pin<&mut Self>, _cx: &mut Context<'_>, b: &[u8]) -> Poll<std::io::Result<usize>> {
        let n = if self.max_write == 0 { b.len() } else { b.len().min(self.max_write) };
        self.written.extend_from_slice(&b[..n]);
        Poll::Ready(Ok(n))
    }
    fn poll_flush(self: Pin<&mut Self>, _cx: &mut Context<'_>) -> Poll<std::io::Result<()>> {
        Poll::Ready(Ok(()))
    }
    fn poll_shutdown(self: Pin<&mut Self>, _cx: &mut Context<'_>) -> Poll<std::io::Result<()>> {
        Poll::Ready(Ok(()))
    }
}

fn read_run(rt: &tokio::runtime::Runtime, segs: Vec<Vec<u8>>) -> (Vec<Value>, String) {
    let r = std::panic::catch_unwind(std::panic::AssertUnwindSafe(|| {
        rt.block_on(async {
            let mut conn = Connection::new(SegStream { segs: segs.into(), written: vec![], max_write: 0 });
            let mut got = vec![];
            loop {
                match conn.read_frame().await {
                    Ok(Some(f)) => got.push(frame_json(&f)),
                    Ok(None) => return (got, "clean".to_string()),
                    Err(e) => {
                        let s = format!("{e}");
                        let kind = if s.contains("reset") { "reset" } else { "error" };
                        return (got, kind.to_string());
                    }
                }
                if got.len() > 10_000 {
                    return (got, "runaway".into());
                }
            }
        })
    }));
    r.unwrap_or_else(|_| (vec![], "panic".into()))
}

fn conn_mode(streams: &[Value], seed: u64, si: usize, sn: usize, out: &mut TraceOut, pend: &Pending) -> u64 {
    let rt = tokio::runtime::Builder::new_current_thread().enable_all().build().unwrap();
    let mut rng = Rng::new(seed.wrapping_add(si as u64 * 131));
    let mut n = 0u64;
    // stretches the bounded frame set cannot contain: payloads around and above the 8 KiB
    // read/write buffers, followed by more frames in the same stream (pipelining)
    let mut all: Vec<Value> = streams.to_vec();
    // (65527 and 131062: the encoding is 2^16 + 1 and 2^17 + 1 bytes long, one more than a doubling buffer holds)
    let huge = std::env::args().any(|a| a == "--huge");
    for big in [8180usize, 8192, 8193, 16384, 16400, 20000, 65527, 131062] {
        if big > 70000 && !huge {
            continue;
        }
        let payload: Vec<u64> = (0..big).map(|i| if i % 97 == 0 { 13 } else if i % 89 == 0 { 10 } else { 97 + (i % 26) as u64 }).collect();
        let b = json!({"t": "bulk", "b": payload});
        let small = json!({"t": "bulk", "b": [107]});
        all.push(json!({"big": true, "frames": [b, {"t": "simple", "s": [79, 75]}, {"t": "int", "v": {"neg": true, "digits": [52, 50]}}, {"t": "null"}]}));
        all.push(json!({"big": true, "frames": [{"t": "array", "items": [{"t": "bulk", "b": [83, 69, 84]}, small, b]},
                                                  {"t": "array", "items": [{"t": "bulk", "b": [71, 69, 84]}, small]}]}));
    }
    let streams = &all;
    for (i, s) in streams.iter().enumerate() {
        if i % sn != si {
            continue;
        }
        let frames: Vec<Frame> = s["frames"].as_array().unwrap().iter().map(json_frame).collect();
        pend.set(&json!({"ev": "conn", "frames": s["frames"], "phase": "write"}));
        // encode with the real writer
        let enc = std::panic::catch_unwind(std::panic::AssertUnwindSafe(|| {
            rt.block_on(async {
                let mut conn = Connection::new(Cursor::new(Vec::<u8>::new()));
                for f in &frames {
                    conn.write_frame(f).await.map_err(|e| format!("{e}"))?;
                }
                Ok::<_, String>(conn)
            })
        }));
        // Connection has no accessor for its stream: encode again through SegStream to read the bytes
        let encoded: Result<Vec<u8>, String> = match enc {
            Err(_) => Err("panic".into()),
            Ok(Err(e)) => Err(e),
            Ok(Ok(_)) => {
                // (a transport that takes at most 1000 bytes per write: what is read back below is what
                // really went out, not what the writer believes it sent)
                let mut sink = SegStream { segs: VecDeque::new(), written: vec![], max_write: 1000 };
                let r = rt.block_on(async {
                    let mut conn = Connection::new(&mut sink);
                    for f in &frames {
                        conn.write_frame(f).await.map_err(|e| format!("{e}"))?;
                    }
                    Ok::<_, String>(())
                });
                r.map(|_| sink.written.clone())
            }
        };
        let bytes = match &encoded {
            Ok(b) => b.clone(),
            Err(e) => {
                pend.clear();
                out.emit(&json!({"ev": "conn", "frames": s["frames"], "write": e, "encoded": [], "runs": []}));
                n += 1;
                continue;
            }
        };
        pend.set(&json!({"ev": "conn", "frames": s["frames"], "phase": "read"}));
        let mut runs = vec![];
        let len = bytes.len();
        let orig: Vec<Value> = s["frames"].as_array().unwrap().clone();
        let is_big = s.get("big").is_some();
        let mut push = |segs: Vec<Vec<u8>>, upto: usize, how: &str, runs: &mut Vec<Value>| {
            let lens: Vec<usize> = if segs.len() > 64 { vec![segs.len()] } else { segs.iter().map(|x| x.len()).collect() };
            let (mut got, end) = read_run(&rt, segs);
            if is_big {
                // keep the trace small: a decoded frame that is identical to the frame written at
                // the same position is recorded as a reference to it
                for (i, g) in got.iter_mut().enumerate() {
                    if orig.get(i) == Some(g) {
                        *g = json!({"t": "same", "i": i + 1});
                    }
                }
            }
            runs.push(json!({"how": how, "segs": lens, "upto": upto, "got": got, "end": end}));
        };
        // frame boundaries inside the stream (each frame encoded alone by the real writer)
        let mut bounds: Vec<usize> = vec![];
        {
            let mut at = 0usize;
            for f in &frames {
                let mut sink = SegStream { segs: VecDeque::new(), written: vec![], max_write: 0 };
                let _ = rt.block_on(async { Connection::new(&mut sink).write_frame(f).await });
                at += sink.written.len();
                bounds.push(at);
            }
        }
        let near: Vec<usize> = {
            let mut v: Vec<usize> = vec![];
            for b in bounds.iter().chain([8192usize, 16384, 65536].iter()) {
                for d in [-2i64, -1, 0, 1, 2, 5] {
                    let x = *b as i64 + d;
                    if x > 0 && (x as usize) < len {
                        v.push(x as usize);
                    }
                }
            }
            v.sort();
            v.dedup();
            v
        };
        let small = len <= 40 && frames.len() == 1;
        push(vec![bytes.clone()], len, "all-at-once", &mut runs);
        if len <= 25_000 {
            push(bytes.iter().map(|b| vec![*b]).collect(), len, "bytewise", &mut runs);
        }
        // single cuts: every position for one short frame, otherwise around the boundaries
        let cuts: Vec<usize> = if small { (1..len).collect() } else { near.clone() };
        for c in &cuts {
            push(vec![bytes[..*c].to_vec(), bytes[*c..].to_vec()], len, "cut", &mut runs);
        }
        // random multi-way segmentations (small pieces; large pieces for large streams)
        for round in 0..3 {
            let mut segs = vec![];
            let mut at = 0;
            let maxl = if len > 1000 && round > 0 { 6000 } else { 7 };
            while at < len {
                let l = 1 + rng.below(maxl) as usize;
                let e = (at + l).min(len);
                segs.push(bytes[at..e].to_vec());
                at = e;
            }
            push(segs, len, "random", &mut runs);
        }
        // end of stream: every position for one short frame, otherwise around the boundaries
        let eofs: Vec<usize> = if small { (0..len).collect() } else { near.iter().copied().chain([0usize, len - 1]).collect() };
        for e in &eofs {
            push(vec![bytes[..*e].to_vec()], *e, "eof", &mut runs);
        }
        pend.clear();
        out.emit(&json!({"ev": "conn", "frames": s["frames"], "write": "ok", "encoded": bytes_json(&bytes), "runs": runs}));
        n += 1;
    }
    n
}

fn main() {
    bcverif::shim::init();
    quiet_panics();
    let args: Vec<String> = std::env::args().collect();
    if args.len() < 4 {
        eprintln!("usage: respdrive bytes|conn <inputs.jsonl> <out-prefix> --shard i/n [--seed N] [--fuzz N]");
        std::process::exit(2);
    }
    let seed: u64 = arg_val(&args, "--seed").and_then(|s| s.parse().ok()).unwrap_or(1);
    let fuzz: usize = arg_val(&args, "--fuzz").and_then(|s| s.parse().ok()).unwrap_or(2000);
    let shard = arg_val(&args, "--shard").unwrap_or_else(|| "0/1".into());
    let (si, sn): (usize, usize) = {
        let mut it = shard.split('/');
        (it.next().unwrap().parse().unwrap(), it.next().unwrap().parse().unwrap())
    };
    let text = fs::read_to_string(&args[2]).expect("inputs file");
    let lines: Vec<Value> = text.lines().filter(|l| !l.trim().is_empty()).map(|l| serde_json::from_str(l).expect("json")).collect();
    let prefix = PathBuf::from(&args[3]);
    let path = PathBuf::from(format!("{}.{}.ndjson", prefix.display(), si));
    let pend = Pending::new(PathBuf::from(format!("{}.{}.pending", prefix.display(), si)));
    let mut out = TraceOut::create(&path);
    out.emit(&json!({"ev": "header", "mode": args[1]}));
    let n = match args[1].as_str() {
        "bytes" => {
            let inputs: Vec<Vec<u8>> = lines.iter().map(|v| json_bytes(&v["buf"])).collect();
            bytes_mode(&inputs, seed, fuzz, si, sn, &mut out, &pend)
        }
        "conn" => conn_mode(&lines, seed, si, sn, &mut out, &pend),
        m => panic!("mode {m}"),
    };
    let l = out.finish();
    pend.clear();
    let _ = fs::remove_file(&pend.0);
    println!("{}", json!({"file": path.display().to_string(), "runs": n, "lines": l}));
}
