---------------------------------- MODULE Gen_Conc ----------------------------------
(***************************************************************************************)
(* Specification -> implementation for concurrency (C04): BitcaskConc.tla with a history *)
(* variable that records which thread took which step.  TLC's simulation mode draws      *)
(* random behaviours; each complete one (all operations finished) is printed as a        *)
(* schedule that sysdrive forces onto the real store step by step: the writer is stopped *)
(* at every write(2) and before it publishes, readers after pop / lookup / map, the      *)
(* merger after every copy and before the hint write that follows the re-point.          *)
(***************************************************************************************)
EXTENDS BitcaskConc, Json

VARIABLE sched
gvars == <<vars, sched>>
Log(t, a, k, v) == sched' = Append(sched, [t |-> t, a |-> a, k |-> k, v |-> v])

GInit == Init /\ sched = <<>>
GNext ==
    \/ \E k \in Keys, v \in Vals \cup {None} : StartPut(k, v) /\ Log("w", "start", k, v)
    \/ WriteHead /\ Log("w", "write", "-", "-")
    \/ WriteRest /\ Log("w", "lastwrite", "-", "-")
    \/ Publish /\ Log("w", "publish", "-", "-")
    \/ \E r \in Readers :
          \/ \E k \in Keys : Pop(r, k) /\ Log(r, "pop", k, "-")
          \/ Lookup(r) /\ Log(r, "lookup", "-", "-")
          \/ MapStep(r) /\ Log(r, "map", "-", "-")
          \/ Slice(r) /\ Log(r, "slice", "-", "-")
    \/ StartMerge /\ Log("m", "start", "-", "-")
    \/ (\E k \in Keys : MergeCopy(k)) /\ Log("m", "copy", "-", "-")
    \/ MergeRepoint /\ Log("m", "repoint", "-", "-")
    \/ MergeHintNext /\ Log("m", "hintnext", "-", "-")
    \/ MergeUnlinkAll /\ Log("m", "finish", "-", "-")
GSpec == GInit /\ [][GNext]_gvars

AllDone == /\ wr = Idle /\ mg = Idle /\ \A r \in Readers : rd[r].pc \in {"idle", "dead"}
           /\ nw = WriterOps /\ nm = MaxMerges /\ \A r \in Readers : nr[r] = ReaderOps
Emit == AllDone => PrintT(<<"SCHEDULE", ToJson([steps |-> sched])>>)
=======================================================================================
