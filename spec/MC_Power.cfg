SPECIFICATION Spec
CONSTANTS
  Keys = {"k1", "k2"}
  Vals = {"v0", "v1"}
  KLen <- MCKLen
  VLen <- MCVLen
  Configs <- MCConfigsSync
  MaxOps = 4
  MaxCrashes = 0
  Ops = {"put", "del", "merge", "reopen"}
  Deviations = {}
CONSTRAINT OpsBound
INVARIANTS PowerLossSafe TypeOK ReadsMatchModel DelReportsPresence RebuildAgrees CrashSafe HintsAreAccelerator
  MergeShrinks FullMergeIsMinimal MergeIdempotentInSize SizeBound StatsTruth NoUnderflow
PROPERTY AppendOnly
CHECK_DEADLOCK FALSE
