------------------------------ MODULE MC_RespFrames ------------------------------
(***************************************************************************************)
(* C08 on the specification: for every stream of up to MaxFrames frames drawn from a    *)
(* bounded set of writable frames (boundary integers incl. i64::MIN, bulk strings made  *)
(* of CR / LF / NUL / 0xFF / text that looks like RESP, null, flat arrays), TLC checks  *)
(* that the encoding decodes back to the same frames for EVERY segmentation into two    *)
(* segments and byte-at-a-time, that every strict prefix of an encoding is incomplete,  *)
(* and that a stream ending inside a frame ends in an error.  Each stream is printed    *)
(* for the harness, which pushes it through the real Connection.                        *)
(***************************************************************************************)
EXTENDS Resp, Json

CONSTANTS MaxFrames, EmitOn
VARIABLE fs          \* the stream: a sequence of frames

IntVals == {[neg |-> FALSE, digits |-> <<48>>], [neg |-> FALSE, digits |-> <<55>>],
            [neg |-> TRUE, digits |-> <<49>>], [neg |-> FALSE, digits |-> <<49, 48, 48, 48>>],
            [neg |-> FALSE, digits |-> I64MaxDigits], [neg |-> TRUE, digits |-> I64MinDigits],
            [neg |-> TRUE, digits |-> I64MaxDigits]}
Texts == {<<>>, <<79, 75>>, <<97, 32, 98>>}
Blobs == {<<>>, <<97>>, <<CR>>, <<LF>>, <<CR, LF>>, <<0>>, <<255>>, <<97, CR, LF, 98, CR>>,
          <<Dollar, Minus, 49, CR, LF>>, <<Star, 50, CR, LF>>}
FlatFrames == {[t |-> "simple", s |-> x] : x \in Texts} \cup {[t |-> "error", s |-> x] : x \in Texts}
              \cup {[t |-> "int", v |-> x] : x \in IntVals} \cup {[t |-> "bulk", b |-> x] : x \in Blobs}
              \cup {[t |-> "null"]}
\* arrays of the shapes commands and replies have, plus the empty array
ArrElems == {[t |-> "bulk", b |-> <<97>>], [t |-> "bulk", b |-> <<CR, LF>>], [t |-> "bulk", b |-> <<>>],
             [t |-> "int", v |-> [neg |-> TRUE, digits |-> I64MinDigits]], [t |-> "null"],
             [t |-> "simple", s |-> <<79, 75>>], [t |-> "simple", s |-> <<>>], [t |-> "error", s |-> <<>>]}
Arrays == {[t |-> "array", items |-> <<>>]} \cup {[t |-> "array", items |-> <<a>>] : a \in ArrElems}
          \cup {[t |-> "array", items |-> <<a, b>>] : a, b \in ArrElems}
Frames == FlatFrames \cup Arrays

Init == fs = <<>>
Next == Len(fs) < MaxFrames /\ \E f \in Frames : fs' = Append(fs, f)
Spec == Init /\ [][Next]_fs

Stream == EncodeAll(fs)

\* read_frame over segments: the buffer accumulates, complete frames are taken out
RECURSIVE ReadSegs(_, _, _)
ReadSegs(segs, buf, acc) ==
    IF segs = <<>> THEN [frames |-> acc, end |-> IF buf = <<>> THEN "clean" ELSE "reset"]
    ELSE LET d == Drain(buf \o Head(segs), <<>>)
         IN IF d.last.kind = "err" THEN [frames |-> acc \o d.frames, end |-> "error"]
            ELSE ReadSegs(Tail(segs), d.rest, acc \o d.frames)
Bytewise(s) == [i \in 1..Len(s) |-> <<s[i]>>]

AllWritableClean == \A i \in 1..Len(fs) : Writable(fs[i]) /\ Clean(fs[i])
Expected == [frames |-> fs, end |-> "clean"]

RoundTrip == ReadAll(Stream) = Expected
ChunkingIndependent ==
    /\ \A c \in 1..(Len(Stream) - 1) :
          ReadSegs(<<SubSeq(Stream, 1, c), SubSeq(Stream, c + 1, Len(Stream))>>, <<>>, <<>>) = Expected
    /\ ReadSegs(Bytewise(Stream), <<>>, <<>>) = Expected
\* every strict prefix of ONE encoding is incomplete (not an error, not a shorter frame)
PrefixIsIncomplete ==
    Len(fs) = 1 => \A c \in 0..(Len(Stream) - 1) : Check(SubSeq(Stream, 1, c), 0, 0).kind = "inc"
\* a stream that ends inside a frame is an error, and delivers exactly the frames before it
EofInsideFrameIsError ==
    Len(fs) >= 1 =>
        LET last == Encode(fs[Len(fs)])
            before == Len(Stream) - Len(last)
        IN \A c \in 1..(Len(last) - 1) :
              ReadAll(SubSeq(Stream, 1, before + c)) = [frames |-> SubSeq(fs, 1, Len(fs) - 1), end |-> "reset"]

Emit == (EmitOn /\ Len(fs) >= 1) => PrintT(<<"STREAM", ToJson([frames |-> fs, bytes |-> Stream])>>)
===================================================================================
