---------------------------------- MODULE TraceLin ----------------------------------
(***************************************************************************************)
(* Linearizability monitor (C11 over the network, C04 on handles).                      *)
(*                                                                                     *)
(* Input (IOEnv.TRACE): one event per history window.  A window starts and ends in a    *)
(* quiescent state; `init` is the map at its start (read through a Handle), `ops` are   *)
(* the operations of all clients with a process-wide sequence number taken BEFORE the   *)
(* call was issued (inv) and AFTER its result arrived (ret), and the logical result:    *)
(*     set -> "OK"      get -> the value or "none"      del -> "1" / "0"                 *)
(* An operation that did not complete (ending # "ok") may take effect at any time       *)
(* after its invocation or never.                                                       *)
(*                                                                                     *)
(* The specification is the sequential map plus an internal linearization step: in each *)
(* step one pending operation whose invocation is not after the response of an          *)
(* operation that is still unlinearized takes effect atomically and must produce the    *)
(* recorded result.  TLC searches all such orders (depth first); a window is accepted   *)
(* when all completed operations are linearized, and the trace when every window is.    *)
(***************************************************************************************)
EXTENDS Naturals, Integers, Sequences, FiniteSets, TLC, Json, IOUtils

Rec == ndJsonDeserialize(IOEnv.TRACE)
N == Len(Rec)

VARIABLES l,      \* the window being searched
          done,   \* indices of its operations that have been linearized
          kv      \* the abstract map at this point of the linearization
vars == <<l, done, kv>>

W(i) == Rec[i]
Idx(r) == 1..Len(r.ops)
Completed(r) == {i \in Idx(r) : r.ops[i].ending = "ok"}
KeysOf(r) == {r.init[i].k : i \in 1..Len(r.init)}
InitKv(r) == [k \in KeysOf(r) |-> (r.init[CHOOSE i \in 1..Len(r.init) : r.init[i].k = k]).v]

ASSUME TLCSet(1, 2)

Init == l = 2 /\ done = {} /\ kv = IF N >= 2 THEN InitKv(W(2)) ELSE <<>>

\* i may be linearized now: no unlinearized completed operation returned before i was invoked
MayGo(r, i) ==
    /\ i \notin done
    /\ \A j \in Completed(r) \ done : j = i \/ ~(r.ops[j].ret < r.ops[i].inv)

ResultOf(o) ==
    CASE o.op = "set" -> "OK"
      [] o.op = "get" -> kv[o.k]
      [] o.op = "del" -> IF kv[o.k] = "none" THEN "0" ELSE "1"
Effect(o) ==
    CASE o.op = "set" -> [kv EXCEPT ![o.k] = o.v]
      [] o.op = "del" -> [kv EXCEPT ![o.k] = "none"]
      [] OTHER -> kv

Linearize(i) ==
    LET r == W(l) o == r.ops[i] IN
    /\ l <= N /\ i \in Idx(r) /\ MayGo(r, i)
    /\ (o.ending = "ok" => o.res = ResultOf(o))
    /\ kv' = Effect(o)
    /\ done' = done \cup {i}
    /\ l' = l

NextWindow ==
    /\ l <= N /\ Completed(W(l)) \subseteq done
    /\ l' = l + 1 /\ done' = {}
    /\ kv' = IF l + 1 <= N THEN InitKv(W(l + 1)) ELSE <<>>
    /\ TLCSet(1, IF l + 1 > TLCGet(1) THEN l + 1 ELSE TLCGet(1))

Next == NextWindow \/ (l <= N /\ \E i \in Idx(W(l)) : Linearize(i))
Spec == Init /\ [][Next]_vars

\* every window was linearized (the register holds the furthest window reached)
Accepted ==
    IF TLCGet(1) = N + 1 THEN TRUE
    ELSE Print(<<"NOT LINEARIZABLE: window at line", TLCGet(1), "run", W(TLCGet(1)).run, "window", W(TLCGet(1)).window>>, FALSE)
=====================================================================================
