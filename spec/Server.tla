---------------------------------- MODULE Server ----------------------------------
(***************************************************************************************)
(* The network server of letung3105/bitcask (src/net/server.rs, connection.rs,          *)
(* command.rs, shutdown.rs): listener with a connection-limit semaphore, one handler    *)
(* task per connection, shutdown broadcast and completion channel.                      *)
(*                                                                                     *)
(* One action per await point of the code:                                              *)
(*   Listener::listen   acquire().forget()  ->  accept (retried with back-off when it    *)
(*                      fails; gives up after too many failures)  ->  spawn handler       *)
(*   Handler::run       select!{read_frame, shutdown.recv}  ->  Command::try_from  ->    *)
(*                      spawn_blocking(store call).await  ->  write_frame (two steps so  *)
(*                      that a torn reply is representable)  ->  back to the select      *)
(*   Drop for Handler   add_permits(1), completion sender dropped, socket closed         *)
(*   Server::run        select!{listen, shutdown} -> drop(notify) -> drop(complete_tx)   *)
(*                      -> complete_rx.recv() returns when every handler is gone         *)
(* Clients connect (the kernel backlog accepts them before the server does), send       *)
(* requests possibly split in two segments, read replies, and end in every way: clean    *)
(* close, close after half a frame, a malformed request, a request whose execution      *)
(* panics in the handler.                                                               *)
(***************************************************************************************)
EXTENDS Naturals, Integers, Sequences, FiniteSets, TLC

CONSTANTS
    Conns,       \* connection ids
    MaxConn,     \* max_connections
    Keys, Vals,  \* of the store
    MaxReq,      \* bound on requests per connection (state constraint)
    Hostile      \* subset of Conns that may also send malformed requests / provoke panics

None == "none"

\* a request is a record; "bad" = malformed frame or unknown command, "boom" = a command whose
\* store call panics on the blocking pool (JoinError in the handler)
Reqs == [op : {"set"}, k : Keys, v : Vals] \cup [op : {"get"}, k : Keys] \cup [op : {"del"}, k : Keys]
BadReqs == {[op |-> "bad"], [op |-> "boom"]}

VARIABLES
    permits,     \* available permits of the semaphore
    listener,    \* "acquire" | "accept" | "retry" (accept failed, backing off) | "stopped"
    cstate,      \* [Conns -> "new" | "backlog" | "serving" | "srvclosed"]   server side of the socket
    cli,         \* [Conns -> "open" | "closed"]                               client side
    inbuf,       \* [Conns -> Seq(request)]  complete requests buffered at the server
    partial,     \* [Conns -> BOOLEAN]       the stream currently ends inside a frame
    h,           \* [Conns -> handler state record]  pc: "none","select","exec","write1","write2","gone"
    got,         \* [Conns -> Seq(reply)]    what the client has received; a torn reply ends in "half"
    nsent,       \* [Conns -> Nat]           requests the client has completely sent
    store,       \* [Keys -> Vals \cup {None}]
    applied,     \* ghost: sequence of <<conn, request>> in the order the store applied them
    shutdown,    \* "no" | "fired" | "notified" (notify_shutdown dropped) | "waiting" (complete_tx dropped)
    returned     \* Server::run has returned

vars == <<permits, listener, cstate, cli, inbuf, partial, h, got, nsent, store, applied, shutdown, returned>>

NoH == [pc |-> "none"]
Alive(c) == h[c].pc \in {"select", "exec", "write1", "write2"}
AliveSet == {c \in Conns : Alive(c)}

Reply(st, r) ==
    CASE r.op = "set" -> "OK"
      [] r.op = "get" -> st[r.k]
      [] r.op = "del" -> IF st[r.k] = None THEN ":0" ELSE ":1"
Apply(st, r) ==
    CASE r.op = "set" -> [st EXCEPT ![r.k] = r.v]
      [] r.op = "del" -> [st EXCEPT ![r.k] = None]
      [] OTHER -> st

Init ==
    /\ permits = MaxConn /\ listener = "acquire"
    /\ cstate = [c \in Conns |-> "new"] /\ cli = [c \in Conns |-> "open"]
    /\ inbuf = [c \in Conns |-> <<>>] /\ partial = [c \in Conns |-> FALSE]
    /\ h = [c \in Conns |-> NoH] /\ got = [c \in Conns |-> <<>>] /\ nsent = [c \in Conns |-> 0]
    /\ store = [k \in Keys |-> None] /\ applied = <<>>
    /\ shutdown = "no" /\ returned = FALSE

-----------------------------------------------------------------------------------------
(* Clients *)
ClientConnect(c) ==
    /\ cstate[c] = "new" /\ cli[c] = "open" /\ shutdown = "no"
    /\ cstate' = [cstate EXCEPT ![c] = "backlog"]
    /\ UNCHANGED <<permits, listener, cli, inbuf, partial, h, got, nsent, store, applied, shutdown, returned>>

Connected(c) == cstate[c] \in {"backlog", "serving"} /\ cli[c] = "open"

\* a whole request in one go, or its first half, or the rest of a half-sent one
ClientSend(c, r) ==
    /\ Connected(c) /\ ~partial[c] /\ nsent[c] < MaxReq
    /\ (r \in BadReqs => c \in Hostile)
    /\ inbuf' = [inbuf EXCEPT ![c] = Append(@, r)]
    /\ nsent' = [nsent EXCEPT ![c] = @ + 1]
    /\ UNCHANGED <<permits, listener, cstate, cli, partial, h, got, store, applied, shutdown, returned>>
ClientSendHalf(c) ==
    /\ Connected(c) /\ ~partial[c] /\ nsent[c] < MaxReq
    /\ partial' = [partial EXCEPT ![c] = TRUE]
    /\ UNCHANGED <<permits, listener, cstate, cli, inbuf, h, got, nsent, store, applied, shutdown, returned>>
ClientSendRest(c, r) ==
    /\ Connected(c) /\ partial[c] /\ r \in Reqs
    /\ partial' = [partial EXCEPT ![c] = FALSE]
    /\ inbuf' = [inbuf EXCEPT ![c] = Append(@, r)]
    /\ nsent' = [nsent EXCEPT ![c] = @ + 1]
    /\ UNCHANGED <<permits, listener, cstate, cli, h, got, store, applied, shutdown, returned>>
ClientClose(c) ==
    /\ cli[c] = "open" /\ cstate[c] # "new"
    /\ cli' = [cli EXCEPT ![c] = "closed"]
    /\ UNCHANGED <<permits, listener, cstate, inbuf, partial, h, got, nsent, store, applied, shutdown, returned>>

-----------------------------------------------------------------------------------------
(* Listener *)
ListenerAcquire ==
    /\ listener = "acquire" /\ permits > 0
    /\ permits' = permits - 1 /\ listener' = "accept"
    /\ UNCHANGED <<cstate, cli, inbuf, partial, h, got, nsent, store, applied, shutdown, returned>>
\* Listener::accept: accept(2) fails (out of descriptors, aborted connection): the listener backs off and
\* retries, keeping the permit it took; after too many failures in a row listen() returns the error and
\* Server::run goes through the same exit as for the shutdown signal
ListenerAcceptFails ==
    /\ listener \in {"accept", "retry"} /\ listener' = "retry"
    /\ UNCHANGED <<permits, cstate, cli, inbuf, partial, h, got, nsent, store, applied, shutdown, returned>>
ListenerGivesUp ==
    /\ listener = "retry" /\ shutdown = "no"
    /\ shutdown' = "fired" /\ listener' = "stopped"
    /\ UNCHANGED <<permits, cstate, cli, inbuf, partial, h, got, nsent, store, applied, returned>>
ListenerAccept(c) ==
    /\ listener \in {"accept", "retry"} /\ cstate[c] = "backlog"
    /\ cstate' = [cstate EXCEPT ![c] = "serving"]
    /\ h' = [h EXCEPT ![c] = [pc |-> "select"]]
    /\ listener' = "acquire"
    /\ UNCHANGED <<permits, cli, inbuf, partial, got, nsent, store, applied, shutdown, returned>>

-----------------------------------------------------------------------------------------
(* Handler *)
\* Drop for Handler: the permit goes back, the completion sender and the socket are dropped
HandlerDropTo(c) ==
    /\ h' = [h EXCEPT ![c] = [pc |-> "gone"]]
    /\ permits' = permits + 1
    /\ cstate' = [cstate EXCEPT ![c] = "srvclosed"]

\* select!: a complete request is buffered
HandlerTakesRequest(c) ==
    /\ h[c].pc = "select" /\ inbuf[c] # <<>>
    /\ LET r == Head(inbuf[c]) IN
        /\ inbuf' = [inbuf EXCEPT ![c] = Tail(@)]
        /\ IF r.op = "bad"
             THEN HandlerDropTo(c)           \* frame / command error: run() returns Err, handler dropped
             ELSE /\ h' = [h EXCEPT ![c] = [pc |-> "exec", r |-> r]]
                  /\ UNCHANGED <<permits, cstate>>
    /\ UNCHANGED <<listener, cli, partial, got, nsent, store, applied, shutdown, returned>>
\* select!: end of stream (clean, or inside a frame = error): the handler ends either way
HandlerSeesEof(c) ==
    /\ h[c].pc = "select" /\ inbuf[c] = <<>> /\ cli[c] = "closed"
    /\ HandlerDropTo(c)
    /\ UNCHANGED <<listener, cli, inbuf, partial, got, nsent, store, applied, shutdown, returned>>
\* select!: the shutdown broadcast (only observable here, never inside a command)
HandlerSeesShutdown(c) ==
    /\ h[c].pc = "select" /\ shutdown \in {"notified", "waiting"}
    /\ HandlerDropTo(c)
    /\ UNCHANGED <<listener, cli, inbuf, partial, got, nsent, store, applied, shutdown, returned>>
\* spawn_blocking(store call).await
HandlerExec(c) ==
    /\ h[c].pc = "exec"
    /\ LET r == h[c].r IN
        IF r.op = "boom"
          THEN /\ HandlerDropTo(c)            \* JoinError -> run() returns Err
               /\ UNCHANGED <<store, applied>>
          ELSE /\ store' = Apply(store, r)
               /\ applied' = Append(applied, <<c, r>>)
               /\ h' = [h EXCEPT ![c] = [pc |-> "write1", reply |-> Reply(store, r)]]
               /\ UNCHANGED <<permits, cstate>>
    /\ UNCHANGED <<listener, cli, inbuf, partial, got, nsent, shutdown, returned>>
\* write_frame + flush, in two steps; a closed client makes the write fail (handler ends)
HandlerWrite1(c) ==
    /\ h[c].pc = "write1"
    /\ IF cli[c] = "closed"
         THEN HandlerDropTo(c) /\ UNCHANGED got
         ELSE /\ got' = [got EXCEPT ![c] = Append(@, "half")]
              /\ h' = [h EXCEPT ![c] = [@ EXCEPT !.pc = "write2"]]
              /\ UNCHANGED <<permits, cstate>>
    /\ UNCHANGED <<listener, cli, inbuf, partial, nsent, store, applied, shutdown, returned>>
HandlerWrite2(c) ==
    /\ h[c].pc = "write2"
    /\ got' = [got EXCEPT ![c] = Append(SubSeq(@, 1, Len(@) - 1), h[c].reply)]
    /\ h' = [h EXCEPT ![c] = [pc |-> "select"]]
    /\ UNCHANGED <<permits, listener, cstate, cli, inbuf, partial, nsent, store, applied, shutdown, returned>>

-----------------------------------------------------------------------------------------
(* Server::run *)
ShutdownFires ==
    /\ shutdown = "no"
    /\ shutdown' = "fired" /\ listener' = "stopped"      \* the listen() future is dropped by select!
    /\ UNCHANGED <<permits, cstate, cli, inbuf, partial, h, got, nsent, store, applied, returned>>
RunDropsNotify ==
    /\ shutdown = "fired" /\ shutdown' = "notified"
    /\ UNCHANGED <<permits, listener, cstate, cli, inbuf, partial, h, got, nsent, store, applied, returned>>
RunDropsCompleteTx ==
    /\ shutdown = "notified" /\ shutdown' = "waiting"
    /\ UNCHANGED <<permits, listener, cstate, cli, inbuf, partial, h, got, nsent, store, applied, returned>>
RunReturns ==
    /\ shutdown = "waiting" /\ AliveSet = {} /\ ~returned
    /\ returned' = TRUE
    /\ UNCHANGED <<permits, listener, cstate, cli, inbuf, partial, h, got, nsent, store, applied, shutdown>>

-----------------------------------------------------------------------------------------
ClientStep(c) ==
    \/ ClientConnect(c) \/ ClientClose(c) \/ ClientSendHalf(c)
    \/ \E r \in Reqs \cup BadReqs : ClientSend(c, r)
    \/ \E r \in Reqs : ClientSendRest(c, r)
HandlerStep(c) ==
    \/ HandlerTakesRequest(c) \/ HandlerSeesEof(c) \/ HandlerSeesShutdown(c)
    \/ HandlerExec(c) \/ HandlerWrite1(c) \/ HandlerWrite2(c)
ServerStep ==
    \/ ListenerAcquire \/ (\E c \in Conns : ListenerAccept(c)) \/ (\E c \in Conns : HandlerStep(c))
    \/ ListenerAcceptFails \/ ListenerGivesUp
    \/ RunDropsNotify \/ RunDropsCompleteTx \/ RunReturns
Next == (\E c \in Conns : ClientStep(c)) \/ ServerStep \/ ShutdownFires

\* the server's own steps are fair; clients and the shutdown signal are not
Fairness ==
    /\ WF_vars(ListenerAcquire) /\ WF_vars(RunDropsNotify) /\ WF_vars(RunDropsCompleteTx) /\ WF_vars(RunReturns)
    /\ \A c \in Conns : WF_vars(HandlerStep(c)) /\ WF_vars(ListenerAccept(c))
Spec == Init /\ [][Next]_vars /\ Fairness

-----------------------------------------------------------------------------------------
(*                                   PROPERTIES                                        *)
TypeOK == /\ permits \in 0..MaxConn /\ listener \in {"acquire", "accept", "retry", "stopped"}
          /\ \A c \in Conns : h[c].pc \in {"none", "select", "exec", "write1", "write2", "gone"}

\* C15: never more than MaxConn connections being served; every permit is accounted for;
\* a handler that ended, however it ended, gave its permit back
ServingAtMostMax == Cardinality(AliveSet) <= MaxConn
HeldByListener == IF listener \in {"accept", "retry"} THEN 1 ELSE 0
\* when shutdown drops the listen() future while it holds a forgotten permit, that permit is gone
LostAtShutdown == IF listener = "stopped" THEN MaxConn - permits - Cardinality(AliveSet) ELSE 0
PermitConservation ==
    /\ permits + Cardinality(AliveSet) + HeldByListener + LostAtShutdown = MaxConn
    /\ LostAtShutdown \in {0, 1}

\* Server.tla refines the slot accounting of ServerPermits.tla, whose invariant is proved inductive by Apalache
\* (unbounded in the length of the history); TLC checks the refinement on the bounded instances
SP == INSTANCE ServerPermits WITH
        hpc <- [c \in Conns |-> IF Alive(c) THEN "alive" ELSE IF h[c].pc = "gone" THEN "gone" ELSE "none"],
        shutdown <- IF shutdown = "no" THEN "no" ELSE "fired",
        lost <- LostAtShutdown
PermitsRefinement == SP!Spec

\* C06 / C16: what a client has received is the replies to a prefix of its requests, in order,
\* each computed by the store at the moment it was applied (checked against the ghost order)
RECURSIVE RepliesOf(_, _, _)
RepliesOf(ap, st, c) ==      \* replies connection c must have been given, following the applied order
    IF ap = <<>> THEN <<>>
    ELSE LET x == Head(ap)
             rest == RepliesOf(Tail(ap), Apply(st, x[2]), c)
         IN IF x[1] = c THEN <<Reply(st, x[2])>> \o rest ELSE rest
Complete(s) == s = <<>> \/ s[Len(s)] # "half"
Stripped(s) == IF Complete(s) THEN s ELSE SubSeq(s, 1, Len(s) - 1)
RepliesInOrder ==
    \A c \in Conns :
        LET exp == RepliesOf(applied, [k \in Keys |-> None], c)
        IN /\ Len(Stripped(got[c])) <= Len(exp)
           /\ Stripped(got[c]) = SubSeq(exp, 1, Len(Stripped(got[c])))
\* C16: every reply a client received is reflected in the store (it was applied before it was written)
RepliedImpliesApplied ==
    \A c \in Conns : Len(Stripped(got[c])) <= Cardinality({i \in 1..Len(applied) : applied[i][1] = c})
\* C16: once the server side of a connection is closed, the client's stream is complete replies
NoTornReply == \A c \in Conns : cstate[c] = "srvclosed" => Complete(got[c])
\* the store only changes through well-formed commands (C10), in some order of them
RECURSIVE Fold(_, _)
Fold(ap, st) == IF ap = <<>> THEN st ELSE Fold(Tail(ap), Apply(st, Head(ap)[2]))
StoreIsAppliedCommands == store = Fold(applied, [k \in Keys |-> None])
\* C10: whatever a hostile connection does, the others are not ended by the server
ErrorIsLocal ==
    \A c \in Conns \ Hostile :
        (h[c].pc = "gone" /\ shutdown = "no") => cli[c] = "closed"

\* C16 liveness: after the shutdown signal, run() returns (handlers are never stuck: a
\* handler in a command finishes it, a handler at the select sees the broadcast)
ShutdownTerminates == (shutdown = "fired") ~> returned
\* C15 liveness: a connection waiting in the backlog is eventually served when slots free up
\* (clients that hold a slot eventually close)
ReqBound == \A c \in Conns : nsent[c] <= MaxReq
=====================================================================================
