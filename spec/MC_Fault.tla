------------------------------- MODULE MC_Fault -------------------------------
(* Bounded instance of BitcaskFault.tla: the base scope of MC_Seq plus one transient failure *)
EXTENDS BitcaskFault
MCKLen == [k \in Keys |-> 1]
MCVLen == [v \in Vals |-> IF v = "v0" THEN 0 ELSE 1]
Big == 1000000
ThAll  == [thFragNum |-> 1, thFragDen |-> 1, thDead |-> Big, thSmall |-> Big]
ThFrag == [thFragNum |-> 1, thFragDen |-> 2, thDead |-> Big, thSmall |-> 0]
ThDead == [thFragNum |-> 1, thFragDen |-> 1, thDead |-> 20, thSmall |-> 0]
Mk(mf, sy, th) == [maxFile |-> mf, sync |-> sy] @@ th
MCConfigsFault == {Mk(mf, sy, th) : mf \in {0, 60, Big}, sy \in {"none", "always"}, th \in {ThAll, ThFrag, ThDead}}
MCConfigsFaultSync == {Mk(mf, "always", th) : mf \in {0, 60, Big}, th \in {ThAll, ThFrag, ThDead}}
MCConfigsFaultSync0 == {Mk(0, "always", th) : th \in {ThAll, ThFrag, ThDead}}
OpsBound == nops <= MaxOps
==============================================================================
