------------------------------- MODULE MC_Fault -------------------------------
(* Bounded instance of BitcaskFault.tla: the base scope of MC_Seq plus one transient failure *)
EXTENDS BitcaskFault
MCKLen == [k \in Keys |-> 1]
\* "vB" is a value above the write buffer: its record reaches the file in two write(2) calls (26 + 9000 bytes)
MCVLen == [v \in Vals |-> IF v = "v0" THEN 0 ELSE IF v = "vB" THEN 9000 ELSE 1]
Big == 1000000
ThAll  == [thFragNum |-> 1, thFragDen |-> 1, thDead |-> Big, thSmall |-> Big]
ThFrag == [thFragNum |-> 1, thFragDen |-> 2, thDead |-> Big, thSmall |-> 0]
ThDead == [thFragNum |-> 1, thFragDen |-> 1, thDead |-> 20, thSmall |-> 0]
Mk(mf, sy, th) == [maxFile |-> mf, sync |-> sy] @@ th
MCConfigsFault == {Mk(mf, sy, th) : mf \in {0, 60, Big}, sy \in {"none", "always"}, th \in {ThAll, ThFrag, ThDead}}
MCConfigsFaultSync == {Mk(mf, "always", th) : mf \in {0, 60, Big}, th \in {ThAll, ThFrag, ThDead}}
MCConfigsFaultSync0 == {Mk(0, "always", th) : th \in {ThAll, ThFrag, ThDead}}
\* scope with a record above the write buffer: file sizes below one big record / between one and two / unbounded
MCConfigsFaultBig == {Mk(mf, sy, th) : mf \in {60, 10000, Big}, sy \in {"none", "always"}, th \in {ThAll, ThFrag}}
MCConfigsFaultBigSync == {Mk(mf, "always", th) : mf \in {60, 10000, Big}, th \in {ThAll, ThFrag}}
OpsBound == nops <= MaxOps
==============================================================================
