SPECIFICATION Spec
CONSTANT MaxLen = 2
INVARIANT Emit
CHECK_DEADLOCK FALSE
