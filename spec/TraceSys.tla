---------------------------------- MODULE TraceSys ----------------------------------
(***************************************************************************************)
(* Implementation -> specification for the life cycle (C17), the background policy       *)
(* (C18) and the forced concurrency schedules (C04).  Input (IOEnv.TRACE): one event per *)
(* scenario run by sysdrive on the real store.  The expectations are the properties of   *)
(* Lifecycle.tla (ClosedRejects, BgExitsWithoutTimer, PolicyNever, NoSpuriousMerge,       *)
(* TriggeredMergeDeadline, IntervalSync) and of BitcaskConc.tla (NoPanic, PoolConserved,  *)
(* GetLinearizable) restated over what the scenario observed; wall-clock facts use the    *)
(* slack constants below.  Histories of the stress runs are judged by TraceLin.tla.      *)
(***************************************************************************************)
EXTENDS Naturals, Integers, Sequences, FiniteSets, TLC, Json, IOUtils

Rec == ndJsonDeserialize(IOEnv.TRACE)
Has(r, f) == f \in DOMAIN r
SlackMs == 1500          \* scheduling slack allowed on every deadline

VARIABLES l, bad, badq      \* (badq: the verdict on the sequential properties at quiescence after a concurrent run)
vars == <<l, bad, badq>>
V(p, why) == [p |-> p, why |-> why]
OK == V("", "")

-----------------------------------------------------------------------------------------
(* C17 *)
Methods == {"set", "get", "del", "merge", "sync"}
CloseVerdict(r) ==
    IF Has(r, "abort") THEN V("C17", "the process died or hung in a close scenario")
    ELSE IF r.kind \in {"cycles", "quick-cycles"} THEN
        LET c == r.counts[1] IN
        IF r.settled_ms < 0 \/ c.bg > 0
             THEN V("C17", "background worker threads are still alive after open/close cycles")
        ELSE IF c.dirfds > 0 THEN V("C17", "descriptors into the store directory stay open after open/close cycles")
        ELSE IF c.threads > c.threads0 + 2 \/ c.fds > c.fds0 + 2
             THEN V("C17", "threads or descriptors accumulate over open/close cycles")
        ELSE OK
    ELSE IF r.kind = "mid-merge-reopen" THEN
        IF ~r.parked THEN V("drift", "no background merge could be stopped in the middle of its copies")
        ELSE IF r.drop_returned_ms < 0 THEN V("C17", "dropping the store did not return")
        ELSE IF r.reopen # "ok" THEN V("C17", "the directory cannot be opened again at once after the drop (a background merge was in flight): " \o r.reopen)
        ELSE IF \E i \in 1..Len(r.reads_through_the_reopened_store) :
                    r.reads_through_the_reopened_store[i].res # r.reads_through_the_reopened_store[i].want
               THEN V("C17", "a store opened at once after the drop misbehaves: background work that was in flight at the drop goes on in its directory")
        ELSE IF r.final # "ok" THEN V("C17", "after a drop during a background merge and an immediate reopen the directory is damaged: " \o r.final)
        ELSE IF \E m \in DOMAIN r.after : r.after[m] # "closed"
               THEN V("C17", "an operation through a remaining handle does not fail with 'closed' after the drop (mid-merge-reopen)")
        ELSE IF r.bg_gone_ms < 0 THEN V("C17", "the background worker thread does not exit after the drop (mid-merge-reopen)")
        ELSE OK
    ELSE IF ~r.parked THEN V("drift", "the scenario could not park a thread at its point")
    ELSE IF r.drop_returned_ms < 0 THEN V("C17", "dropping the store did not return")
    ELSE IF \E m \in DOMAIN r.after : r.after[m] # "closed"
           THEN V("C17", "an operation through a remaining handle does not fail with 'closed' after the drop (" \o r.kind \o ")")
    ELSE IF r.mutating_calls_after_drop > 0 \/ ~r.dir_unchanged
           THEN V("C17", "operations after the drop still change the directory")
    ELSE IF r.bg_gone_ms < 0 THEN V("C17", "the background worker thread does not exit after the drop (" \o r.kind \o ")")
    \* with no operation in flight at the drop (worker asleep, or woken but not yet inside merge/sync),
    \* background work that starts after the drop must be refused too: the directory stays as it was
    ELSE IF (r.kind = "idle" \/ (r.kind = "at-point" /\ r.input.point \in {"bg.merge.woke", "bg.merge.triggered", "bg.sync.woke"}))
              /\ Has(r, "changed_between_drop_and_worker_exit")
              /\ Has(r, "drop_done_before_release") /\ r.drop_done_before_release
              /\ (r.changed_between_drop_and_worker_exit \/ r.mutating_calls_between_drop_and_worker_exit > 0)
           THEN V("C17", "background work that started after the drop changed the directory (" \o r.kind \o ")")
    ELSE IF Has(r, "changes_by_others_after_the_drop_returned") /\ r.changes_by_others_after_the_drop_returned > 0
           THEN V("C17", "after the drop had returned another thread of the store still changed the directory (" \o r.kind \o ")")
    ELSE IF r.reopen # "ok" THEN V("C17", "the directory cannot be opened again at once: " \o r.reopen)
    ELSE IF Has(r, "inflight") /\ r.inflight \notin {"ok", "closed"} THEN V("C17", "the operation in flight at the drop failed: " \o r.inflight)
    ELSE OK

-----------------------------------------------------------------------------------------
(* C18 *)
RECURSIVE MaxGap(_, _, _)
MaxGap(ts, prev, mx) == IF ts = <<>> THEN mx ELSE MaxGap(Tail(ts), Head(ts), IF Head(ts) - prev > mx THEN Head(ts) - prev ELSE mx)
\* the active file id is sampled after every write; ids only grow.  A periodic sync that woke at
\* time t forces the file that is active when it gets the writer lock: not older than the file that
\* was active clearly before t, not newer than the one active clearly after.
ActiveBefore(as, t) ==
    LET c == {i \in 1..Len(as) : as[i].t <= t - 10}
    IN IF c = {} THEN 0 ELSE as[CHOOSE i \in c : \A j \in c : j <= i].active
ActiveAfter(as, t) ==
    LET c == {i \in 1..Len(as) : as[i].t >= t + 300}
    IN IF c = {} THEN as[Len(as)].active + 1 ELSE as[CHOOSE i \in c : \A j \in c : i <= j].active

BgVerdict(r) ==
    IF Has(r, "abort") THEN V("C18", "the process died or hung in a background scenario")
    ELSE LET i == r.input IN
    IF i.pattern \in {"sync", "sync-busy", "sync-fault"} THEN
        LET w == r.sync_wakes n == Len(w) IN
        IF n = 0 THEN V("C18", "interval sync never ran")
        ELSE IF MaxGap(w, 0, 0) > r.interval_ms + SlackMs \/ r.observed_ms - w[n] > r.interval_ms + SlackMs
               THEN V("C18", "more than one interval passed without a sync while the store was open")
        \* every tick (but the last, whose sync may still be under way) is followed by an fsync of a data file
        \* that was the active one around that time; the store may fsync other files as well (a rollover that
        \* seals the file it leaves, say), that is not this property's business
        \* (within two intervals and a quarter of a second - a sync that has to wait for a busy writer gets the
        \* lock when that write ends; one late tick is tolerated as a scheduling hiccup -, and in any case within
        \* the general slack)
        ELSE LET Synced(q, bound) ==
                   \E j \in 1..Len(r.fsyncs) :
                        /\ r.fsyncs[j].data /\ r.fsyncs[j].t >= w[q] - 10 /\ r.fsyncs[j].t <= w[q] + bound
                        /\ (r.actives = <<>> \/ (r.fsyncs[j].id >= ActiveBefore(r.actives, w[q])
                                                  /\ r.fsyncs[j].id <= ActiveAfter(r.actives, r.fsyncs[j].t)))
             IN IF (\E k \in 1..(n - 1) : ~Synced(k, 3 * r.interval_ms + SlackMs))
                     \/ Cardinality({m \in 1..(n - 1) : ~Synced(m, 2 * r.interval_ms + 250)}) >= 2
                  THEN V("C18", "ticks of the periodic sync are not followed by an fsync of the active file")
                ELSE OK
    ELSE IF i.policy = "never" THEN
        IF r.merge_starts # <<>> \/ r.hint_files > 0 THEN V("C18", "a merge ran although the merge policy is 'never'") ELSE OK
    ELSE IF i.pattern = "frag-fault" THEN
        \* the first background merge fails; the trigger stays exceeded, so a second attempt must follow
        \* within one more check interval (plus jitter and slack) of the first
        IF Len(r.merge_starts) = 0 THEN V("C18", "a trigger is exceeded but no merge started")
        ELSE IF ~(\E k \in 2..Len(r.merge_starts) : r.merge_starts[k] <= r.merge_starts[1] + r.interval_ms + r.jitter_ms + SlackMs)
               THEN V("C18", "after a background merge failed no further merge is attempted although the trigger is still exceeded")
        ELSE OK
    ELSE IF i.pattern \in {"frag", "dead", "late-del", "frag-reopen", "frag-held"} THEN
        IF ~r.can_merge THEN V("drift", "the write pattern did not cross the trigger")
        ELSE IF i.pattern \in {"late-del", "frag-held"} /\ r.merges_before_crossing > 0 THEN V("C18", "a merge ran although no merge trigger was exceeded yet (pattern " \o i.pattern \o ")")
        ELSE IF ~(\E k \in 1..Len(r.merge_starts) : r.merge_starts[k] <= r.crossed_at + r.interval_ms + r.jitter_ms + SlackMs)
               THEN V("C18", "a trigger (" \o i.pattern \o ") is exceeded but no merge started within one check interval plus jitter")
        ELSE OK
    ELSE \* "between" (above the inclusion thresholds, below the triggers) and "none"
        IF r.merge_starts # <<>> \/ r.hint_files > 0
             THEN V("C18", "a merge ran although no merge trigger is exceeded (pattern " \o i.pattern \o ")")
        ELSE IF r.wakes = <<>> THEN V("drift", "the merge task never woke during the observation")
        ELSE OK

-----------------------------------------------------------------------------------------
(* C04: forced schedules *)
Bad(s) == s \in {"panic", "hang"}
IsErr(s) == s \notin {"ok", "OK", "none"} /\ \E p \in {"err:"} : FALSE
ConcVerdict(r) ==
    IF Has(r, "abort") THEN V("C04", "the process died or hung in a concurrency scenario")
    ELSE IF r.kind \in {"forced-remap", "forced-remap-cold"} THEN
        IF ~r.paused THEN V("drift", "the writer could not be paused between its two write calls")
        ELSE IF r.set_big # "ok" THEN V("C04", "the paused set failed: " \o r.set_big)
        ELSE IF r.after_big # r.expect_big
               THEN V("C04", "a value larger than the write buffer cannot be read after a reader mapped the file while it was half written: " \o r.after_big)
        ELSE IF r.mid_small # "one" THEN V("C04", "a get during the half-written append misreads: " \o r.mid_small)
        ELSE IF r.kind = "forced-remap" /\ (r.after_small2 # "two" \/ r.again_big # r.expect_big \/ r.mid_big # "none")
               THEN V("C04", "reads around a large append are wrong")
        ELSE IF r.kind = "forced-remap-cold" /\ r.again_small # "one" THEN V("C04", "the reader is unusable after reading the large entry: " \o r.again_small)
        ELSE OK
    ELSE IF r.kind = "read-fault" THEN
        IF \E i \in 1..Len(r.failed) : Bad(r.failed[i]) THEN V("C04", "a get whose data file cannot be opened panics or hangs")
        ELSE IF \E i \in 1..Len(r.after) : r.after[i].res # r.after[i].want
               THEN V("C04", "after gets that failed on the read path, a get hangs, fails or misreads: the ability to serve reads is reduced")
        ELSE IF r.left > 0 THEN V("drift", "the injected read-path faults were not all consumed")
        ELSE OK
    ELSE IF r.kind = "pool-contention" THEN
        IF r.stuck > 0 THEN V("C04", "gets wait forever for a reader although every reader has been returned (all readers held, more gets waiting, readers returned together): " \o r.first_bad)
        ELSE IF r.wrong > 0 THEN V("C04", "a get that had to wait for a reader fails or misreads: " \o r.first_bad)
        ELSE IF r.rounds_with_all_readers_held < r.rounds THEN V("drift", "the gets could not all be held right after taking their readers")
        ELSE OK
    ELSE IF r.kind = "forced-fault-vs-get" THEN
        IF ~r.paused THEN V("drift", "the writer could not be held at the failing call")
        ELSE IF r.pre # "v1" \/ r.during_other # "o" THEN V("C04", "a get beside a set / delete that is failing misreads: " \o r.during_other)
        ELSE IF \E i \in 1..Len(r.after) : r.after[i] # r.after[1] THEN V("C04", "gets after a failed " \o r.input.op \o " disagree with each other")
        ELSE IF r.after[1] \notin {"v1", IF r.input.op = "del" THEN "none" ELSE "v2"} THEN V("C04", "after a failed " \o r.input.op \o " the key reads neither its old nor the new state: " \o r.after[1])
        \* during the operation the key reads its old state or the state the gets afterwards agree on
        ELSE IF r.during \notin {"v1", r.after[1]}
               THEN V("C04", "a get that overlaps a " \o r.input.op \o " which then fails sees a state that the later gets take back (" \o r.during \o ", then " \o r.after[1] \o "): no order of the operations explains it")
        ELSE OK
    ELSE IF r.kind = "forced-merge-vs-get" THEN
        IF ~r.parked THEN V("drift", "the get could not be parked between lookup and read")
        ELSE IF r.get # r.expect THEN V("C04", "a get that overlaps a merge pass fails or misreads: " \o r.get)
        ELSE IF r.after # r.expect THEN V("C04", "a get after the overlapping merge fails or misreads: " \o r.after)
        ELSE IF r.merge # "ok" THEN V("C04", "the overlapping merge failed: " \o r.merge)
        ELSE OK
    ELSE IF r.kind = "forced-get-during-merge" THEN
        IF ~r.parked THEN V("drift", "the merger could not be parked at its n-th copy")
        ELSE IF \E i \in 1..Len(r.during) : r.during[i].res \notin {r.during[i].want, "hang"}
               THEN V("C04", "a get during a merge pass (some keys already re-pointed, the merger stopped at a later copy) fails or misreads")
        ELSE IF \A i \in 1..Len(r.during) : r.during[i].res = "hang"
               THEN V("C04", "every get blocks while a merge pass is in progress")
        ELSE IF r.merge # "ok" THEN V("C04", "the merge failed: " \o r.merge)
        ELSE IF \E i \in 1..Len(r.after) : r.after[i].res # r.after[i].want
               THEN V("C04", "a get after the merge pass fails or misreads")
        ELSE OK
    ELSE IF r.kind = "sched" THEN
        IF r.hung THEN V("C04", "an operation never returns under an interleaving generated from BitcaskConc.tla")
        ELSE IF r.bad_ops # <<>> THEN V("C04", "an operation panics or fails under an interleaving generated from BitcaskConc.tla: " \o r.bad_ops[1].op \o " -> " \o r.bad_ops[1].res)
        ELSE IF \E k \in 1..Len(r.final) : Bad(r.final[k].res) THEN V("C04", "after a generated interleaving a get hangs or panics: reads are permanently impaired")
        ELSE IF r.followed < r.steps THEN V("drift", "the real threads did not follow the generated interleaving step by step")
        ELSE OK
    ELSE IF r.kind = "stress-final" THEN
        IF \E k \in 1..Len(r.final) : Bad(r.final[k].res) THEN V("C04", "after the concurrent run a get hangs or panics: reads are permanently impaired")
        ELSE OK
    ELSE OK

\* the sequential properties at QUIESCENCE after a concurrent run (every thread joined, the merger stopped)
QuiescentVerdict(r) ==
    IF r.ev # "conc" \/ Has(r, "abort") \/ r.kind # "stress-final" \/ ~Has(r, "stats_bad") THEN OK
    ELSE IF Has(r, "counter_overflow_panics") /\ r.counter_overflow_panics # <<>>
           THEN V("C19", "during a concurrent run arithmetic on the store's counters overflowed: " \o r.counter_overflow_panics[1])
    ELSE IF r.stats_bad # <<>> THEN V("C19", "after a concurrent run the counters differ from the files: " \o r.stats_bad[1])
    ELSE IF r.index_bad # "" THEN V("C19", "after a concurrent run " \o r.index_bad)
    ELSE IF r.after_restart # r.reads_before_close THEN V("C02", "after a concurrent run a restart reads differently from the store before the close")
    ELSE IF r.after_restart_without_hints # r.after_restart THEN V("C12", "after a concurrent run recovery without hint files reads differently")
    ELSE OK

Verdict(r) ==
    CASE r.ev = "close" -> CloseVerdict(r)
      [] r.ev = "bg" -> BgVerdict(r)
      [] r.ev = "conc" -> ConcVerdict(r)
      [] OTHER -> OK

Init == l = 2 /\ bad = OK /\ badq = OK
Next == /\ l <= Len(Rec) /\ l' = l + 1
        /\ LET v == Verdict(Rec[l]) IN bad' = IF v.p = "drift" THEN (IF PrintT(<<"DRIFT", l, v.why>>) THEN OK ELSE OK) ELSE v
        /\ badq' = QuiescentVerdict(Rec[l])
Spec == Init /\ [][Next]_vars

C04_ForcedSchedules == bad.p # "C04"
C17_ClosedStore == bad.p # "C17"
C19_AtQuiescence == badq.p # "C19"
C02_AtQuiescence == badq.p # "C02"
C12_AtQuiescence == badq.p # "C12"
C18_BackgroundPolicy == bad.p # "C18"
Accepted ==
    LET d == TLCGet("stats").diameter
    IN IF d = Len(Rec) THEN TRUE ELSE Print(<<"TRACE NOT ACCEPTED: consumed", d - 1, "of", Len(Rec) - 1>>, FALSE)
ErrAlias == [line |-> l - 1, why |-> IF bad.p # "" THEN bad.why ELSE badq.why]
=====================================================================================
