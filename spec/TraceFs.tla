--------------------------------- MODULE TraceFs ---------------------------------
(***************************************************************************************)
(* Implementation -> specification at the level of file-system calls (C03 C09 C14 C20). *)
(*                                                                                     *)
(* Input (IOEnv.TRACE): NDJSON written by fsdrive, in program order:                    *)
(*   reset  run, cfg, mode ("crash" | "power" | "fault")                                *)
(*   inv    op [k v]                  an operation starts (op "open" = the initial open)*)
(*   sys    call kind id n res errno excl append injected      one recorded system call *)
(*   crash  j rec                     probe: the directory a SIGKILL right after the    *)
(*                                    preceding call leaves behind was opened by the    *)
(*                                    real code; rec = what it read and what continued  *)
(*                                    use (a put, a reopen) did                         *)
(*   power  j cuts rec                the same with files cut back towards their fsyncs *)
(*   ret    op res gets               the operation returned                            *)
(*   final  rec                       (fault mode) the directory reopened at the end    *)
(*                                                                                     *)
(* The monitor keeps the acknowledged abstract map (as a set of allowed values per key, *)
(* a singleton unless a failed operation left the key indeterminate), the operation in  *)
(* flight, and the file-system discipline state (ids ever seen, files created by the    *)
(* current incarnation).  An invariant named Cnn_* decides property Cnn.                *)
(***************************************************************************************)
EXTENDS Naturals, Integers, Sequences, FiniteSets, FiniteSetsExt, TLC, Json, IOUtils

None == "none"
Rec == ndJsonDeserialize(IOEnv.TRACE)
Hdr == Rec[1]
Keys == DOMAIN Hdr.keys
Has(r, f) == f \in DOMAIN r

VARIABLES
    l,         \* next event
    mode,      \* "crash" | "power" | "fault"
    allowed,   \* [Keys -> SUBSET values]: acknowledged value(s) of each key
    inflight,  \* the operation between inv and ret, or NoOp
    ever,      \* {<<kind, id>>} every file the directory ever contained
    mine,      \* {<<kind, id>>} files created by the current incarnation (open for append)
    faulted,   \* fault mode: has the injected fault fired, and in which operation
    bad,       \* a verdict computed while consuming the last event: "" or a reason
    bad2       \* a second, independent verdict on the same event (the aftermath of a probe)

vars == <<l, mode, allowed, inflight, ever, mine, faulted, bad, bad2>>

NoOp == [op |-> "none"]
V(p, why) == [p |-> p, why |-> why]     \* a verdict: property id and reason
OK == V("", "")
Singleton(v) == {v}
EmptyMap == [k \in Keys |-> {None}]

\* the maps a recovery may legitimately read: every key has one of its allowed values, and
\* the operation in flight is applied or not
NewVal(o) == IF o.op = "put" THEN o.v ELSE None
WithInflight(al) ==
    IF inflight.op \in {"put", "del"}
      THEN [al EXCEPT ![inflight.k] = @ \cup {NewVal(inflight)}]
      ELSE al
MapAllowed(m, al) == \A k \in Keys : m[k] \in al[k]

Ids(seq, kind) == {seq[i][2] : i \in {j \in 1..Len(seq) : seq[j][1] = kind}}
AllIds(seq) == {seq[i][2] : i \in 1..Len(seq)}
Pairs(seq) == {<<seq[i][1], seq[i][2]>> : i \in 1..Len(seq)}
EverIds == {p[2] : p \in ever}
MaxOr(S, d) == IF S = {} THEN d ELSE Max(S)

-----------------------------------------------------------------------------------------
Init ==
    /\ l = 2 /\ mode = "crash" /\ allowed = EmptyMap /\ inflight = NoOp
    /\ ever = {} /\ mine = {} /\ faulted = [fired |-> FALSE, reported |-> FALSE, inop |-> FALSE, op |-> "-"]
    /\ bad = OK /\ bad2 = OK

Reset ==
    /\ Rec[l].ev = "reset"
    /\ mode' = Rec[l].mode
    /\ allowed' = EmptyMap /\ inflight' = NoOp /\ ever' = {} /\ mine' = {}
    /\ faulted' = [fired |-> FALSE, reported |-> FALSE, inop |-> FALSE, op |-> "-"]
    /\ bad' = IF Rec[l].res = "ok" THEN OK ELSE V("C03", "open of an empty directory failed")
    /\ bad2' = OK

Inv ==
    /\ Rec[l].ev = "inv"
    /\ inflight' = Rec[l]
    \* a new incarnation starts with open / reopen: it owns no file yet
    /\ mine' = IF Rec[l].op \in {"open", "reopen"} THEN {} ELSE mine
    /\ faulted' = [faulted EXCEPT !.inop = FALSE]
    /\ bad' = OK /\ bad2' = OK
    /\ UNCHANGED <<mode, allowed, ever>>

\* C14: the only calls a store may issue on its directory
SysVerdict(r) ==
    LET f == <<r.kind, r.id>> IN
    IF r.res < 0 THEN OK        \* a call that failed changed nothing
    ELSE CASE r.call = "create" ->
               IF r.kind \notin {"data", "hint"} THEN V("C14", "creates a file that is neither data nor hint: " \o r.file)
               ELSE IF ~r.excl THEN V("C14", "file created without O_EXCL")
               ELSE IF ~r.append THEN V("C14", "file created without O_APPEND")
               ELSE IF r.trunc THEN V("C14", "file created with O_TRUNC")
               ELSE IF r.kind = "data" /\ \E g \in EverIds : g >= r.id
                      THEN V("C14", "data file id is not above every id the directory ever contained")
               ELSE IF r.kind = "hint" /\ <<"data", r.id>> \notin mine
                      THEN V("C14", "hint file for a data file this incarnation did not create")
               ELSE IF f \in ever THEN V("C14", "file id reused")
               ELSE OK
           [] r.call = "write" -> IF f \in mine THEN OK ELSE V("C14", "write to a file this incarnation did not create")
           [] r.call \in {"fsync", "open_ro", "close"} -> OK
           [] r.call = "unlink" -> IF r.kind \in {"data", "hint"} THEN OK ELSE V("C14", "unlink of a foreign file")
           [] OTHER -> V("C14", "forbidden call " \o r.call \o " on " \o r.file)

Sys ==
    /\ Rec[l].ev = "sys"
    /\ LET r == Rec[l] f == <<r.kind, r.id>> IN
        /\ bad' = SysVerdict(r) /\ bad2' = OK
        /\ ever' = IF r.call = "create" /\ r.res >= 0 THEN ever \cup {f} ELSE ever
        /\ mine' = IF r.call = "create" /\ r.res >= 0 THEN mine \cup {f}
                   ELSE IF r.call = "unlink" /\ r.res >= 0 THEN mine \ {f} ELSE mine
        /\ faulted' = IF r.injected THEN [fired |-> TRUE, reported |-> FALSE, inop |-> TRUE, op |-> inflight.op] ELSE faulted
    /\ UNCHANGED <<mode, allowed, inflight>>

\* what a probe of a crash / power-loss image must satisfy
ProbeVerdict(r, prop) ==
    LET rec == r.rec
        al  == WithInflight(allowed)
    IN IF ~rec.opened THEN V(prop, "the directory could not be opened: " \o rec.err)
       ELSE IF ~MapAllowed(rec.map, al) THEN V(prop, "recovered contents differ from the acknowledged map (with or without the operation in flight)")
       ELSE LET c == rec.cont
                m1 == [rec.map EXCEPT ![c.k] = c.v]
            IN IF c.put # "ok" THEN V(prop, "the recovered store rejects a put: " \o c.put)
               ELSE IF \E k \in Keys : c.gets[k] # m1[k] THEN V(prop, "the recovered store misreads after a put")
               ELSE IF ~c.reopened THEN V(prop, "the recovered store cannot be reopened after a put")
               ELSE IF \E k \in Keys : c.gets2[k] # m1[k] THEN V(prop, "the recovered store loses data over put + reopen")
               ELSE
               \* C14: recovery leaves the bytes of every file it keeps exactly as it found them; the only calls it may
               \* issue besides read-only opens and fsyncs are the exclusive creation of a new data file and the removal
               \* of a data or hint file as a whole (what a removal does to the contents is judged by the reads above)
               IF rec.modified_by_recovery # <<>>
                    THEN V("C14", "recovery modified an existing file: " \o rec.modified_by_recovery[1])
               ELSE IF \E i \in 1..Len(rec.recovery_calls) :
                          LET rc == rec.recovery_calls[i]
                          IN ~(\/ rc.res < 0
                               \/ (rc.call = "create" /\ rc.kind = "data" /\ rc.excl /\ rc.append /\ ~rc.trunc)
                               \/ (rc.call = "unlink" /\ rc.kind \in {"data", "hint"})
                               \/ rc.call = "fsync")
                    THEN V("C14", "recovery issues a call other than creating a new data file or removing a whole file")
               ELSE
               \* C14 across crashes: files created by recovery and by continued use
               LET new1 == Pairs(rec.after_open) \ Pairs(rec.before)
                   new2 == Pairs(c.after) \ Pairs(rec.after_open)
                   old  == EverIds \cup AllIds(rec.before)
               IN IF \E p \in new1 : p[1] = "data" /\ \E g \in old : g >= p[2]
                    THEN V("C14", "after a crash, recovery creates a data file whose id the directory already contained")
                  ELSE IF \E p \in new2 : p[1] = "data" /\ \E g \in old \cup {q[2] : q \in new1} : g >= p[2]
                    THEN V("C14", "after a crash, a rollover creates a data file whose id the directory already contained")
                  ELSE OK

\* the aftermath of a probe: the recovered store (after the put and the restart above) is used like any other:
\* deletes and overwrites, a merge pass, a restart, and a restart from a copy without hint files.  Whatever the
\* kill left behind (outputs of an unfinished merge, hint files that lack entries, torn tails) must not matter.
RECURSIVE AftMap(_, _, _)
AftMap(m, acts, i) ==
    IF i > Len(acts) THEN m
    ELSE LET a == acts[i]
         IN AftMap([m EXCEPT ![a[2]] = IF a[1] = "del" THEN None ELSE a[3]], acts, i + 1)
RECURSIVE AftResultsOk(_, _, _, _)
AftResultsOk(m, acts, res, i) ==
    IF i > Len(acts) THEN TRUE
    ELSE LET a == acts[i]
             exp == IF a[1] = "put" THEN "ok" ELSE IF m[a[2]] = None THEN "false" ELSE "true"
         IN res[i] = exp /\ AftResultsOk([m EXCEPT ![a[2]] = IF a[1] = "del" THEN None ELSE a[3]], acts, res, i + 1)
AftVerdict(r, prop) ==
    LET rec == r.rec IN
    IF ~rec.opened \/ ~Has(rec, "aft") \/ ~rec.aft.done \/ rec.cont.put # "ok" THEN OK
    ELSE LET a  == rec.aft
             m1 == [rec.map EXCEPT ![rec.cont.k] = rec.cont.v]
             m2 == AftMap(m1, a.acts, 1)
         IN IF \E k \in Keys : rec.cont.gets2[k] # m1[k] THEN OK      \* already reported by the main verdict
            ELSE IF ~AftResultsOk(m1, a.acts, a.results, 1) THEN V(prop, "the recovered store answers a delete / set wrongly")
            ELSE IF a.merge # "ok" THEN V(prop, "a merge on the recovered store fails: " \o a.merge)
            ELSE IF \E k \in Keys : a.gets3[k] # m2[k] THEN V(prop, "the recovered store misreads after deletes, sets and a merge")
            ELSE IF ~a.with.opened THEN V(prop, "the recovered store cannot be reopened after a merge: " \o a.with.err)
            ELSE IF \E k \in Keys : a.with.gets[k] # m2[k] THEN V(prop, "after recovery, deletes / sets, a merge and a restart a key reads a value it should not have")
            ELSE IF ~a.without.opened THEN V("C12", "after a crash and a merge the directory cannot be opened without its hint files: " \o a.without.err)
            ELSE IF \E k \in Keys : a.without.gets[k] # a.with.gets[k] THEN V("C12", "after a crash and a merge, recovery without hint files reads differently")
            ELSE OK

\* (all-eligible configurations) a merge pass right after recovery, before anything is written
LiveSizeOf(gets) ==
    LET ks == {k \in Keys : gets[k] \in DOMAIN Hdr.vals}
    IN MapThenSumSet(LAMBDA k : 25 + Hdr.keys[k] + Hdr.vals[gets[k]], ks)
PreMergeVerdict(r, prop) ==
    LET rec == r.rec IN
    IF ~rec.opened \/ ~Has(rec, "premerge") \/ ~rec.premerge.done THEN OK
    ELSE LET p == rec.premerge IN
         IF p.res # "ok" THEN V(prop, "a merge right after recovery fails: " \o p.res)
         ELSE IF \E k \in Keys : p.gets[k] # rec.map[k] THEN V(prop, "a merge right after recovery changes what a key reads")
         ELSE IF p.size # LiveSizeOf(p.gets)
                THEN V("C13", "after a kill or a power loss, a merge of every file leaves the store larger than its live data: what the failure left behind is not reclaimed")
         ELSE OK

Probe ==
    /\ Rec[l].ev \in {"crash", "power"}
    /\ bad' = ProbeVerdict(Rec[l], IF Rec[l].ev = "crash" THEN "C03" ELSE "C09")
    /\ bad2' = LET a == AftVerdict(Rec[l], IF Rec[l].ev = "crash" THEN "C03" ELSE "C09")
               IN IF a # OK THEN a ELSE PreMergeVerdict(Rec[l], IF Rec[l].ev = "crash" THEN "C03" ELSE "C09")
    /\ UNCHANGED <<mode, allowed, inflight, ever, mine, faulted>>

Succeeded(r) == r.res \in {"ok", "true", "false"}
\* runs with injected failures: "fault" (one transient failure, C20) and "powerfault" (power loss meeting
\* fsyncs that keep failing, C09: only the probes of the images are judged there)
Faulty == mode \in {"fault", "powerfault"}

Ret ==
    /\ Rec[l].ev = "ret"
    /\ LET r == Rec[l] IN
        /\ allowed' =
             IF r.op \in {"put", "del"}
               THEN IF Succeeded(r) THEN [allowed EXCEPT ![r.k] = {NewVal(r)}]
                    ELSE [allowed EXCEPT ![r.k] = @ \cup {NewVal(r)}]    \* may or may not have taken effect
               ELSE allowed
        /\ faulted' = IF faulted.inop THEN [faulted EXCEPT !.reported = ~Succeeded(r), !.inop = FALSE] ELSE faulted
        /\ bad' =
             IF r.res \in {"panic", "abort"} THEN V("C20", "operation panicked: " \o r.op)
             ELSE IF ~Faulty /\ ~Succeeded(r) THEN V("C01", "operation failed without any fault: " \o r.res)
             ELSE IF Faulty /\ faulted.inop /\ Succeeded(r)
                    THEN V("C20", "a system call failed during " \o r.op \o " but the operation reported success")
             ELSE IF Faulty /\ ~faulted.inop /\ ~Succeeded(r)
                    THEN V("C20", r.op \o " fails although no system call failed during it (the store did not stay usable): " \o r.res)
             ELSE IF r.op = "del" /\ Succeeded(r) /\ (IF r.res = "true" THEN allowed[r.k] = {None}
                                                                  ELSE None \notin allowed[r.k])
                    THEN V(IF Faulty THEN "C20" ELSE "C01", "delete misreports whether the key was present")
             ELSE IF Has(r, "gets") /\ \E k \in Keys : r.gets[k] \notin allowed'[k]
                    THEN V(IF Faulty THEN "C20" ELSE "C01", "a key reads a value it should not have")
             ELSE OK
    /\ inflight' = NoOp /\ bad2' = OK
    /\ UNCHANGED <<mode, ever, mine>>

Final ==
    /\ Rec[l].ev = "final"
    /\ bad' = LET rec == Rec[l].rec IN
                IF ~rec.opened THEN V("C20", "after the fault the directory can no longer be opened: " \o rec.err)
                ELSE IF ~MapAllowed(rec.map, allowed) THEN V("C20", "after the fault and a restart a key reads a value it should not have")
                ELSE IF FALSE THEN V("C20", "unreported")
                ELSE OK
    \* hint files stay an accelerator after a failed operation: the same directory without them reads the same
    /\ bad2' = LET r == Rec[l] IN
                IF ~Has(r, "rec_nohint") \/ ~r.rec.opened THEN OK
                ELSE IF ~r.rec_nohint.opened THEN V("C12", "after a failed operation the directory cannot be opened without its hint files: " \o r.rec_nohint.err)
                ELSE IF \E k \in Keys : r.rec_nohint.map[k] # r.rec.map[k]
                       THEN V("C12", "after a failed operation, recovery without hint files reads differently")
                ELSE OK
    /\ UNCHANGED <<mode, allowed, inflight, ever, mine, faulted>>

\* (fault runs on configurations in which every file is eligible by its size) one more merge pass, without any
\* fault, at the end of the run: the store must be exactly as large as its live data - whatever the failed call
\* left behind (torn tails, abandoned files, outputs of a failed merge) is reclaimed
LiveSize(gets) ==
    LET ks == {k \in Keys : gets[k] \in DOMAIN Hdr.vals}
    IN MapThenSumSet(LAMBDA k : 25 + Hdr.keys[k] + Hdr.vals[gets[k]], ks)
FullMerge ==
    /\ Rec[l].ev = "fullmerge"
    /\ LET r == Rec[l] IN
         bad' = IF r.res \in {"panic", "abort"} THEN V("C20", "a merge after the failed operation panicked")
                ELSE IF r.res # "ok" THEN V("C20", "a merge fails although no system call failed during it (the store did not stay usable): " \o r.res)
                ELSE IF \E k \in Keys : r.gets[k] \notin allowed[k] THEN V("C20", "a key reads a value it should not have")
                ELSE IF r.size # LiveSize(r.gets)
                       THEN V("C13", "after a failed operation a merge of every file leaves the store larger than its live data: what the failure left behind is never reclaimed")
                ELSE OK
    /\ bad2' = OK
    /\ UNCHANGED <<mode, allowed, inflight, ever, mine, faulted>>

\* inside a reopen: the drop of the store object has returned, the open follows.  A drop has no result: a call that
\* failed on its behalf (an fsync at close, say) cannot be reported, and need not be; what the close left on disk is
\* judged by the reads of the open that follows and of the final restart
Closed ==
    /\ Rec[l].ev = "closed"
    /\ faulted' = [faulted EXCEPT !.inop = FALSE]
    /\ bad' = OK /\ bad2' = OK
    /\ UNCHANGED <<mode, allowed, inflight, ever, mine>>

Next == /\ l <= Len(Rec)
        /\ l' = l + 1
        /\ (Reset \/ Inv \/ Sys \/ Probe \/ Ret \/ Final \/ FullMerge \/ Closed)
Spec == Init /\ [][Next]_vars

-----------------------------------------------------------------------------------------
C01_NoFailureWithoutFault == bad.p # "C01"
C03_CrashSafe == bad.p # "C03" /\ bad2.p # "C03"
C09_PowerLossSafe == bad.p # "C09" /\ bad2.p # "C09"
\* C12 in histories with a kill or a failed call: whatever it left behind, hint files stay an accelerator
C12_AfterCrash == bad2.p # "C12"
\* C13 after a failed call (same process) / after a kill or a power loss: a merge of every file reclaims what was left behind
C13_AfterFault == bad.p # "C13"
C13_AfterCrash == bad2.p # "C13"
\* C01 / C02 in runs with a failed call: the reads of the running process and of the restarted store (the
\* fault-containment verdicts that are about what a key reads)
LiveWhys == {"delete misreports whether the key was present", "a key reads a value it should not have"}
C01_UnderFaults == ~(bad.p = "C20" /\ bad.why \in LiveWhys)
C02_UnderFaults == ~(bad.p = "C20" /\ bad.why = "after the fault and a restart a key reads a value it should not have")
\* C05 for a merge pass that FAILS: it too leaves every key reading as before, now and after a restart
\* (the fault-containment verdicts of runs whose failed call was issued by a merge)
C05_FailedMergeKeeps == ~(bad.p = "C20" /\ faulted.fired /\ faulted.op = "merge")
C14_FsDiscipline == bad.p # "C14"
C20_FaultContained == bad.p # "C20"

Accepted ==
    LET d == TLCGet("stats").diameter
    IN IF d = Len(Rec) THEN TRUE
       ELSE Print(<<"TRACE NOT ACCEPTED: consumed", d - 1, "of", Len(Rec) - 1>>, FALSE)

ErrAlias == [line |-> l - 1, why |-> IF bad.p # "" THEN bad.why ELSE bad2.why, why2 |-> bad2.why, event |-> Rec[l - 1].ev, inflight |-> inflight, allowed |-> allowed]
===================================================================================
