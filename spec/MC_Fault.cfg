SPECIFICATION FSpec
CONSTANTS
  Keys = {"k1", "k2"}
  Vals = {"v0", "v1"}
  KLen <- MCKLen
  VLen <- MCVLen
  Configs <- MCConfigsFault
  MaxOps = 4
  MaxCrashes = 0
  Ops = {"put", "del", "merge", "reopen"}
  Deviations = {}
  MaxFaults = 1
  FDev = {}
CONSTRAINT OpsBound
INVARIANTS FaultContainedLive FaultContainedRestart StaysUsable
CHECK_DEADLOCK FALSE
