SPECIFICATION Spec
CONSTANTS
  Conns = {"c1", "c2", "c3"}
  MaxConn = 2
  Keys = {"k"}
  Vals = {"a"}
  MaxReq = 1
  Hostile = {"c3"}
INVARIANTS TypeOK ServingAtMostMax PermitConservation RepliesInOrder RepliedImpliesApplied NoTornReply StoreIsAppliedCommands ErrorIsLocal
PROPERTY ShutdownTerminates
CHECK_DEADLOCK FALSE
