SPECIFICATION TSpec
CONSTANTS
  Keys <- TrKeys
  Vals <- TrVals
  KLen <- TrKLen
  VLen <- TrVLen
  Configs = {}
  MaxOps = 0
  MaxCrashes = 0
  Ops = {}
  Deviations = {}
  MaxFaults = 1000
  FDev = {}
POSTCONDITION Accepted
CHECK_DEADLOCK FALSE
