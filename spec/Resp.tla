----------------------------------- MODULE Resp -----------------------------------
(***************************************************************************************)
(* The RESP codec of letung3105/bitcask (src/net/frame.rs, src/net/connection.rs) as    *)
(* pure operators over byte sequences: a transcription of Frame::check, Frame::parse,  *)
(* their shared line / integer readers, and of Connection::write_frame.                 *)
(*                                                                                     *)
(* A byte is a number 0..255.  `pos` is the cursor (number of bytes consumed), so the   *)
(* byte under the cursor is buf[pos + 1].  Every reader returns a record               *)
(*     [kind |-> "ok" | "inc" | "err", next |-> cursor after, ...]                      *)
(* ("inc" = Error::Incomplete, "err" with a class: "bad" BadEncoding, "notint"          *)
(* NotInteger, "utf8" NotUtf8).                                                         *)
(*                                                                                     *)
(* 64-bit integers do not fit TLC's 32-bit numbers: a decimal is kept as its digit      *)
(* sequence and range-checked against the i64 bounds as a string; the value a frame     *)
(* carries is the canonical form [neg, digits] (no leading zeros, no negative zero).    *)
(* The decoder's leniencies that no property forbids are modelled as they are: a        *)
(* leading '+', the byte after CR is not looked at, '$-' followed by any four bytes     *)
(* passes the completeness check.                                                       *)
(***************************************************************************************)
EXTENDS Naturals, Integers, Sequences, FiniteSets, TLC

CR == 13
LF == 10
Plus == 43
Minus == 45
Colon == 58
Dollar == 36
Star == 42
IsDigit(b) == b >= 48 /\ b <= 57

MaxNesting == 128       \* MAX_NESTING_DEPTH in frame.rs
Huge == 2000000000        \* stands for every length that exceeds any buffer in scope

Ok(next) == [kind |-> "ok", next |-> next]
Inc == [kind |-> "inc", next |-> 0]
Err(c) == [kind |-> "err", next |-> 0, class |-> c]

Min2(a, b) == IF a < b THEN a ELSE b

-----------------------------------------------------------------------------------------
(* Decimal digit strings *)

RECURSIVE StripZeros(_)
StripZeros(d) == IF d # <<>> /\ Head(d) = 48 THEN StripZeros(Tail(d)) ELSE d

I64MaxDigits == <<57, 50, 50, 51, 51, 55, 50, 48, 51, 54, 56, 53, 52, 55, 55, 53, 56, 48, 55>>  \* 9223372036854775807
I64MinDigits == <<57, 50, 50, 51, 51, 55, 50, 48, 51, 54, 56, 53, 52, 55, 55, 53, 56, 48, 56>>  \* 9223372036854775808

\* a <= b for digit strings of equal length
RECURSIVE LexLeq(_, _)
LexLeq(a, b) == IF a = <<>> THEN TRUE
                ELSE IF Head(a) < Head(b) THEN TRUE
                ELSE IF Head(a) > Head(b) THEN FALSE
                ELSE LexLeq(Tail(a), Tail(b))

\* does the magnitude fit an i64 of that sign (checked_mul / checked_add / checked_sub)
InRange(neg, digits) ==
    LET d == StripZeros(digits)
    IN IF Len(d) < 19 THEN TRUE
       ELSE IF Len(d) > 19 THEN FALSE
       ELSE LexLeq(d, IF neg THEN I64MinDigits ELSE I64MaxDigits)

\* the value of an accepted decimal
Canon(neg, digits) ==
    LET d == StripZeros(digits)
    IN IF d = <<>> THEN [neg |-> FALSE, digits |-> <<48>>] ELSE [neg |-> neg, digits |-> d]

\* a length as a number, when it matters (it is compared with the bytes of a short buffer)
RECURSIVE DigitsToNat(_, _)
DigitsToNat(d, acc) == IF d = <<>> THEN acc ELSE DigitsToNat(Tail(d), acc * 10 + (Head(d) - 48))
ToNat(v) == IF Len(v.digits) > 9 THEN Huge ELSE DigitsToNat(v.digits, 0)   \* (TLC integers are 32 bit)

\* i64 -> decimal text as write_decimal prints it
RECURSIVE NatDigits(_)
NatDigits(n) == IF n < 10 THEN <<48 + n>> ELSE Append(NatDigits(n \div 10), 48 + (n % 10))
EncodeInt(v) == (IF v.neg THEN <<Minus>> ELSE <<>>) \o v.digits

-----------------------------------------------------------------------------------------
(* get_line: up to the first CR that is not the last byte of the buffer; LF before it fails *)
GetLine(buf, pos) ==
    LET len == Len(buf)
        \* 0-based indices start..end-1 with end = len - 1 are examined
        hits == {i \in pos..(len - 2) : buf[i + 1] = CR \/ buf[i + 1] = LF}
    IN IF hits = {} THEN Inc
       ELSE LET i == CHOOSE x \in hits : \A y \in hits : x <= y
            IN IF buf[i + 1] = LF THEN Err("bad")
               ELSE [kind |-> "ok", next |-> i + 2, line |-> SubSeq(buf, pos + 1, i)]

(* get_integer *)
GetInteger(buf, pos) ==
    LET len == Len(buf) IN
    IF pos >= len THEN Inc                                  \* peek_byte
    ELSE
    LET b     == buf[pos + 1]
        neg   == b = Minus
        start == IF b = Minus \/ b = Plus THEN pos + 1 ELSE pos
        end   == len - 1
        stops == {i \in start..(end - 1) : ~IsDigit(buf[i + 1])}
        idx   == IF stops = {} THEN (IF start > end THEN start ELSE end)
                 ELSE CHOOSE x \in stops : \A y \in stops : x <= y
    IN IF idx >= end THEN Inc
       ELSE IF idx = start \/ buf[idx + 1] # CR THEN Err("notint")
       ELSE LET digits == SubSeq(buf, start + 1, idx)
            IN IF ~InRange(neg, digits) THEN Err("notint")
               ELSE [kind |-> "ok", next |-> idx + 2, val |-> Canon(neg, digits)]

-----------------------------------------------------------------------------------------
(* Frame::check *)
RECURSIVE Check(_, _, _), CheckItems(_, _, _, _)
Check(buf, pos, depth) ==
    IF depth > MaxNesting THEN Err("bad")
    ELSE IF pos >= Len(buf) THEN Inc                         \* get_byte
    ELSE
    LET t == buf[pos + 1] p1 == pos + 1 IN
    CASE t = Plus \/ t = Minus ->
           LET r == GetLine(buf, p1) IN IF r.kind = "ok" THEN Ok(r.next) ELSE r
      [] t = Colon ->
           LET r == GetInteger(buf, p1) IN IF r.kind = "ok" THEN Ok(r.next) ELSE r
      [] t = Dollar ->
           IF p1 >= Len(buf) THEN Inc
           ELSE IF buf[p1 + 1] = Minus
                  THEN (IF Len(buf) - p1 < 4 THEN Inc ELSE Ok(p1 + 4))      \* skip '-1\r\n' unseen
           ELSE LET r == GetInteger(buf, p1)
                IN IF r.kind # "ok" THEN r
                   ELSE LET n == ToNat(r.val)
                        IN IF Len(buf) - r.next < n + 2 THEN Inc ELSE Ok(r.next + n + 2)
      [] t = Star ->
           LET r == GetInteger(buf, p1)
           IN IF r.kind # "ok" THEN r
              ELSE IF r.val.neg THEN Ok(r.next)              \* for _ in 0..n with n < 0
              ELSE CheckItems(buf, r.next, ToNat(r.val), depth)
      [] OTHER -> Err("bad")
CheckItems(buf, pos, n, depth) ==
    IF n = 0 THEN Ok(pos)
    ELSE LET r == Check(buf, pos, depth + 1)
         IN IF r.kind # "ok" THEN r ELSE CheckItems(buf, r.next, n - 1, depth)

-----------------------------------------------------------------------------------------
(* Frame::parse *)
ValidUtf8(s) == \A i \in 1..Len(s) : s[i] < 128     \* in scope: the only bytes >= 128 are lone 0xFF/0x80..
OkF(next, f) == [kind |-> "ok", next |-> next, frame |-> f]

RECURSIVE Parse(_, _, _), ParseItems(_, _, _, _, _)
Parse(buf, pos, depth) ==
    IF depth > MaxNesting THEN Err("bad")
    ELSE IF pos >= Len(buf) THEN Inc
    ELSE
    LET t == buf[pos + 1] p1 == pos + 1 IN
    CASE t = Plus \/ t = Minus ->
           LET r == GetLine(buf, p1)
           IN IF r.kind # "ok" THEN r
              ELSE IF ~ValidUtf8(r.line) THEN Err("utf8")
              ELSE OkF(r.next, [t |-> IF t = Plus THEN "simple" ELSE "error", s |-> r.line])
      [] t = Colon ->
           LET r == GetInteger(buf, p1)
           IN IF r.kind # "ok" THEN r ELSE OkF(r.next, [t |-> "int", v |-> r.val])
      [] t = Dollar ->
           IF p1 >= Len(buf) THEN Inc
           ELSE IF buf[p1 + 1] = Minus
                  THEN LET r == GetLine(buf, p1)
                       IN IF r.kind # "ok" THEN r
                          ELSE IF r.line # <<Minus, 49>> THEN Err("bad")
                          ELSE OkF(r.next, [t |-> "null"])
           ELSE LET r == GetInteger(buf, p1)
                IN IF r.kind # "ok" THEN r
                   ELSE LET n == ToNat(r.val)
                        IN IF n + 2 > Len(buf) - r.next THEN Inc
                           ELSE OkF(r.next + n + 2, [t |-> "bulk", b |-> SubSeq(buf, r.next + 1, r.next + n)])
      [] t = Star ->
           LET r == GetInteger(buf, p1)
           IN IF r.kind # "ok" THEN r
              ELSE IF r.val.neg THEN Err("bad")
              ELSE ParseItems(buf, r.next, ToNat(r.val), depth, <<>>)
      [] OTHER -> Err("bad")
ParseItems(buf, pos, n, depth, acc) ==
    IF n = 0 THEN OkF(pos, [t |-> "array", items |-> acc])
    ELSE LET r == Parse(buf, pos, depth + 1)
         IN IF r.kind # "ok" THEN r ELSE ParseItems(buf, r.next, n - 1, depth, Append(acc, r.frame))

-----------------------------------------------------------------------------------------
(* Connection::write_frame *)
CRLF == <<CR, LF>>
EncodeLen(n) == NatDigits(n)
RECURSIVE Encode(_), EncodeAll(_)
Encode(f) ==
    CASE f.t = "simple" -> <<Plus>> \o f.s \o CRLF
      [] f.t = "error"  -> <<Minus>> \o f.s \o CRLF
      [] f.t = "int"    -> <<Colon>> \o EncodeInt(f.v) \o CRLF
      [] f.t = "null"   -> <<Dollar, Minus, 49>> \o CRLF
      [] f.t = "bulk"   -> <<Dollar>> \o EncodeLen(Len(f.b)) \o CRLF \o f.b \o CRLF
      [] f.t = "array"  -> <<Star>> \o EncodeLen(Len(f.items)) \o CRLF \o EncodeAll(f.items)
EncodeAll(fs) == IF fs = <<>> THEN <<>> ELSE Encode(Head(fs)) \o EncodeAll(Tail(fs))

\* frames write_frame can write: arrays only at the top level (nested arrays are unimplemented!)
Flat(f) == f.t # "array"
Writable(f) == Flat(f) \/ (f.t = "array" /\ \A i \in 1..Len(f.items) : Flat(f.items[i]))
\* frames that can be decoded back: simple strings/errors must not contain CR or LF
RECURSIVE Clean(_)
Clean(f) ==
    CASE f.t \in {"simple", "error"} -> \A i \in 1..Len(f.s) : f.s[i] # CR /\ f.s[i] # LF /\ f.s[i] < 128
      [] f.t = "array" -> \A i \in 1..Len(f.items) : Clean(f.items[i])
      [] OTHER -> TRUE

-----------------------------------------------------------------------------------------
(* Connection::parse_frame on the buffered bytes: check, then parse from the start *)
ParseFrame(buf) ==
    LET c == Check(buf, 0, 0)
    IN IF c.kind = "inc" THEN [kind |-> "inc"]
       ELSE IF c.kind = "err" THEN [kind |-> "err", class |-> c.class]
       ELSE LET p == Parse(buf, 0, 0)
            IN IF p.kind = "ok" THEN [kind |-> "ok", frame |-> p.frame, used |-> c.next]
               ELSE [kind |-> "err", class |-> IF p.kind = "inc" THEN "inc" ELSE p.class]

(* read_frame over a stream delivered in segments: the frames decoded and how it ends *)
RECURSIVE Drain(_, _)
Drain(buf, acc) ==          \* parse as many frames as the buffer holds
    LET r == ParseFrame(buf)
    IN IF r.kind = "ok" THEN Drain(SubSeq(buf, r.used + 1, Len(buf)), Append(acc, r.frame))
       ELSE [frames |-> acc, rest |-> buf, last |-> r]
\* the whole stream followed by end-of-stream: independent of the segmentation because
\* Drain(b1 \o b2) continues from Drain(b1).rest (PrefixClosed below is what makes that so)
ReadAll(stream) ==
    LET d == Drain(stream, <<>>)
    IN [frames |-> d.frames,
        end |-> IF d.last.kind = "err" THEN "error"
                ELSE IF d.rest = <<>> THEN "clean" ELSE "reset"]   \* EOF inside a frame is an error

=====================================================================================
