SPECIFICATION TSpec
CONSTANTS
  Keys <- TrKeys
  Vals <- TrVals
  KLen <- TrKLen
  VLen <- TrVLen
  Configs = {}
  MaxOps = 0
  MaxCrashes = 0
  Ops = {}
  Deviations = {}
INVARIANTS
  NamesKnown SizesAgree
  C01_OpensAndAnswers C01_Results C01_Gets C01_DelReportsPresence
  C02_ReopenKeeps C02_ReopenFails
  C05_MergeKeeps C05_ReopenFails
  C12_HintsAreAccelerator
  C13_MergeShrinks C13_FullMergeIsMinimal C13_MergeIdempotentInSize
  C14_AppendOnly C14_IdsOnlyGrow C14_SizeBound C14_OnlyStoreFiles
  C19_StatsTruth C19_NoUnderflow
POSTCONDITION Accepted
ALIAS ErrAlias
CHECK_DEADLOCK FALSE
