--------------------------------- MODULE BitcaskFault ---------------------------------
(***************************************************************************************)
(* C20 on the specification: Bitcask.tla extended with ONE transient failure of any      *)
(* system-call step and the error paths the code takes.                                  *)
(*                                                                                     *)
(* What a failed call leaves behind is what makes these paths delicate:                  *)
(*  - a failed write(2) performs nothing, but when it was a FLUSH of a BufWriter the      *)
(*    bytes stay in the buffer and are written when the writer is dropped;               *)
(*  - Writer::write after a failed append: make the active file known to the statistics  *)
(*    (before anything is written), create active+1 and continue there (the old writer   *)
(*    is dropped: retained bytes land at the tail of the OLD file), return the error;     *)
(*  - a failed fsync / rollover create returns the error after the entry reached the     *)
(*    file (unindexed; for the create also already counted);                             *)
(*  - Writer::merge wrapper after a failure anywhere in the merge: the output's writers   *)
(*    are dropped (a retained copy lands in the output data file, unindexed), the hint    *)
(*    file of the output being written is removed, the output is made known to the        *)
(*    statistics if it exists, and the active file moves above every id the merge used;   *)
(*  - statistics of a merged file are forgotten only after both unlinks succeeded;        *)
(*  - the wrapper remembers the output it left behind (entries may already point into it   *)
(*    although it was never fsynced); the next merge fsyncs it before anything else, so    *)
(*    that it never removes the only durable copy of a value (FaultPowerLossSafe).         *)
(* Named deviations switch each of these repairs off again (the defects D6c-D6h).        *)
(*                                                                                     *)
(* Ghost `allowed` : per key the set of values a reader may see - a singleton unless a   *)
(* failed set/delete left the key indeterminate ("may or may not have taken effect").    *)
(***************************************************************************************)
EXTENDS Bitcask

CONSTANTS MaxFaults,
          FDev       \* subset of {"NoStatsBeforeWrite", "StatsDroppedBeforeUnlink", "MergeFailKeepsActive",
                     \*            "MergeFailKeepsHint", "MergeFailOutputUnknown", "LeftoverForgotten"}

VARIABLES nfault, allowed
fvars == <<vars, nfault, allowed>>
vars_but_wr == <<cfg, data, hint, dsync, hsync, keydir, stats, active, written, model, everIds, nops, ncrash, mghost>>

FInit == Init /\ nfault = 0 /\ allowed = [k \in Keys |-> {None}]

NewVal == IF wr.v = Tomb THEN None ELSE wr.v
Ensure(st, f) == IF f \in DOMAIN st THEN st ELSE With(st, f, ZeroStat)
CanFail == nfault < MaxFaults
Faulted == nfault' = nfault + 1

\* which write(2) calls of a record are flushes of the BufWriter (their bytes are retained when
\* they fail) and which are direct writes of a piece >= BufCap (nothing retained): same recursion as BW
RECURSIVE BWFlush(_, _)
BWFlush(pieces, buffered) ==
    IF pieces = <<>> THEN (IF buffered > 0 THEN <<TRUE>> ELSE <<>>)
    ELSE LET p == Head(pieces) spare == BufCap - buffered
         IN IF p < spare THEN BWFlush(Tail(pieces), buffered + p)
            ELSE LET fl == p > spare
                     pre == IF fl /\ buffered > 0 THEN <<TRUE>> ELSE <<>>
                     b1 == IF fl THEN 0 ELSE buffered
                 IN IF p >= BufCap THEN pre \o <<FALSE>> \o BWFlush(Tail(pieces), b1)
                                   ELSE pre \o BWFlush(Tail(pieces), b1 + p)
EFlush(k, v) == BWFlush(EPieces(k, v), 0)

-----------------------------------------------------------------------------------------
(* put / delete *)
\* the statistics entry of the active file exists before anything is written to it
FStartWrite(k, v) ==
    /\ wr = Idle /\ nops' = nops + 1
    /\ wr' = [pc |-> "append", op |-> IF v = Tomb THEN "del" ELSE "put", k |-> k, v |-> v,
              calls |-> EWrites(k, v), ci |-> 1, pos |-> DSize(data[active]), fid |-> active]
    /\ stats' = IF "NoStatsBeforeWrite" \in FDev THEN stats ELSE Ensure(stats, active)
    /\ UNCHANGED <<cfg, data, hint, dsync, hsync, keydir, active, written, model, everIds, ncrash, mghost, nfault, allowed>>

\* write(2) number ci fails: error path = new active file, drop of the old writer, return Err
FailAppend ==
    /\ CanFail /\ Faulted /\ wr.pc = "append"
    /\ LET retained == IF EFlush(wr.k, wr.v)[wr.ci] THEN wr.calls[wr.ci] ELSE 0
       IN wr' = [pc |-> "f.newactive", k |-> wr.k, v |-> wr.v, old |-> active, retained |-> retained,
                 completes |-> retained > 0 /\ wr.ci = Len(wr.calls)]
    /\ UNCHANGED <<vars_but_wr, allowed>>
\* the way a full device usually fails a write: write(2) number ci is performed SHORT (half of its bytes reach the
\* file) and the retry of the rest fails.  When the call was a flush of the BufWriter the rest stays in the buffer and
\* lands when the old writer is dropped - the record is then COMPLETE in the old file (unindexed) if this was its last
\* call; the rest of a direct write (a piece of at least BufCap bytes) is lost
FailAppendShort ==
    /\ CanFail /\ Faulted /\ wr.pc = "append" /\ wr.calls[wr.ci] >= 2
    /\ LET half == wr.calls[wr.ci] \div 2
           retained == IF EFlush(wr.k, wr.v)[wr.ci] THEN wr.calls[wr.ci] - half ELSE 0
       IN /\ data' = [data EXCEPT ![active] = TornWrite(@, half)]
          /\ wr' = [pc |-> "f.newactive", k |-> wr.k, v |-> wr.v, old |-> active, retained |-> retained,
                    completes |-> retained > 0 /\ wr.ci = Len(wr.calls)]
    /\ UNCHANGED <<cfg, hint, dsync, hsync, keydir, stats, active, written, model, everIds, nops, ncrash, mghost, allowed>>
FNewActive ==
    /\ wr.pc = "f.newactive"
    /\ CreateData(active + 1) /\ active' = active + 1 /\ written' = 0
    /\ wr' = [wr EXCEPT !.pc = IF wr.retained > 0 THEN "f.dropflush" ELSE "f.ret"]
    /\ UNCHANGED <<cfg, hint, hsync, keydir, stats, model, nops, ncrash, mghost, nfault, allowed>>
\* BufWriter::drop flushes what the failed flush left behind, into the OLD file
FDropFlush ==
    /\ wr.pc = "f.dropflush"
    /\ data' = [data EXCEPT ![wr.old] = IF wr.completes THEN LastWrite(@, [k |-> wr.k, v |-> wr.v])
                                        ELSE TornWrite(@, wr.retained)]
    /\ wr' = [wr EXCEPT !.pc = "f.ret"]
    /\ UNCHANGED <<cfg, hint, dsync, hsync, keydir, stats, active, written, model, everIds, nops, ncrash, mghost, nfault, allowed>>
\* the operation returns an error: its key is indeterminate from now on
FRet ==
    /\ wr.pc = "f.ret"
    /\ allowed' = [allowed EXCEPT ![wr.k] = @ \cup {IF wr.v = Tomb THEN None ELSE wr.v}]
    /\ wr' = Idle
    /\ UNCHANGED <<vars_but_wr, nfault>>
\* fsync fails: the entry is complete in the file, neither counted nor indexed
FailSync ==
    /\ CanFail /\ Faulted /\ wr.pc = "sync"
    /\ wr' = [pc |-> "f.ret", k |-> wr.k, v |-> wr.v]
    /\ UNCHANGED <<vars_but_wr, allowed>>
\* the rollover create fails: the entry is in the file and counted, but not indexed; the id stays
FailRoll ==
    /\ CanFail /\ Faulted /\ wr.pc = "roll"
    /\ wr' = [pc |-> "f.ret", k |-> wr.k, v |-> wr.v]
    /\ UNCHANGED <<vars_but_wr, allowed>>

-----------------------------------------------------------------------------------------
(* merge *)
MergeSysPcs == {"m.create_data", "m.create_hint", "m.loop", "m.copy", "m.hint", "m.roll_sync_data", "m.roll_sync_hint",
                "m.sync_data", "m.sync_hint", "m.unlink", "m.unlink_data"}
\* the failing call does nothing; dropped writers flush what they retained; then the wrapper
FailMerge ==
    /\ CanFail /\ Faulted /\ wr.pc \in MergeSysPcs
    /\ (wr.pc = "m.loop" => MergeTodo # {})        \* the failing call is the copy of some record
    /\ (wr.pc = "m.unlink" => wr.unl # {})         \* (the final create is FailMergeNewActive)
    \* the failing write of a copy is a flush of the output's BufWriter: the piece stays in the buffer and lands
    \* when the writer is dropped - the whole record (unindexed) if it was the last piece, a torn tail otherwise
    /\ \/ /\ wr.pc = "m.loop"
          /\ \E k \in MergeTodo :
                LET e == MergeSrcEntry(k)
                    calls == CWrites(e.k, e.v)
                IN data' = [data EXCEPT ![wr.out] = IF Len(calls) = 1 THEN LastWrite(@, e) ELSE TornWrite(@, calls[1])]
          /\ UNCHANGED hint
       \/ /\ wr.pc = "m.copy"
          /\ LET e == MergeSrcEntry(wr.k)
                 calls == CWrites(e.k, e.v)
             IN data' = [data EXCEPT ![wr.out] = IF wr.ci = Len(calls) THEN LastWrite(@, e) ELSE TornWrite(@, calls[wr.ci])]
          /\ UNCHANGED hint
       \/ /\ wr.pc = "m.hint"
          /\ hint' = [hint EXCEPT ![wr.out] = LastWrite(@, [k |-> wr.k, pos |-> keydir[wr.k].pos, len |-> keydir[wr.k].len])]
          /\ UNCHANGED data
       \/ /\ wr.pc \notin {"m.loop", "m.copy", "m.hint"} /\ UNCHANGED <<data, hint>>
    \* a failed unlink of the hint file: with the old order the statistics were already gone
    /\ stats' = IF wr.pc \in {"m.unlink", "m.unlink_data"} /\ wr.unl # {} /\ "StatsDroppedBeforeUnlink" \in FDev
                  THEN Drop(stats, NextUnlink) ELSE stats
    /\ wr' = [pc |-> "fm.unlinkhint", out |-> wr.out]
    /\ UNCHANGED <<cfg, dsync, hsync, keydir, active, written, model, everIds, nops, ncrash, mghost, allowed>>
FMergeUnlinkHint ==
    /\ wr.pc = "fm.unlinkhint"
    /\ hint' = IF "MergeFailKeepsHint" \in FDev THEN hint ELSE Drop(hint, wr.out)
    /\ hsync' = IF "MergeFailKeepsHint" \in FDev THEN hsync ELSE Drop(hsync, wr.out)
    /\ stats' = IF wr.out \in DOMAIN data /\ "MergeFailOutputUnknown" \notin FDev THEN Ensure(stats, wr.out) ELSE stats
    \* the output that was being written is remembered: it was not necessarily forced to disk
    /\ mghost' = IF wr.out \in DOMAIN data /\ "LeftoverForgotten" \notin FDev THEN [mghost EXCEPT !.leftover = wr.out] ELSE mghost
    /\ wr' = [wr EXCEPT !.pc = "fm.newactive"]
    /\ UNCHANGED <<cfg, data, dsync, keydir, active, written, model, everIds, nops, ncrash, nfault, allowed>>
FMergeNewActive ==
    /\ wr.pc = "fm.newactive"
    /\ IF "MergeFailKeepsActive" \in FDev
         THEN UNCHANGED <<data, dsync, everIds, active, written>>
         ELSE CreateData(wr.out + 1) /\ active' = wr.out + 1 /\ written' = 0
    /\ wr' = Idle
    /\ UNCHANGED <<cfg, hint, hsync, keydir, stats, model, nops, ncrash, mghost, nfault, allowed>>
\* the create of the new active file at the END of a successful merge fails: the wrapper creates it
FailMergeNewActive ==
    /\ CanFail /\ Faulted /\ wr.pc = "m.unlink" /\ wr.unl = {}
    /\ wr' = [pc |-> "fm.unlinkhint", out |-> wr.out]
    /\ UNCHANGED <<vars_but_wr, allowed>>

\* Writer::merge_files starts by forcing the leftover of a failed merge to disk
FStartMerge ==
    /\ wr = Idle
    /\ IF mghost.leftover = -1 THEN StartMerge
       ELSE /\ nops' = nops + 1 /\ wr' = [pc |-> "m.sync_leftover"]
            /\ UNCHANGED <<cfg, data, hint, dsync, hsync, keydir, stats, active, written, model, everIds, ncrash, mghost>>
FSyncLeftover ==
    /\ wr.pc = "m.sync_leftover"
    /\ LET f == mghost.leftover IN dsync' = IF f \in DOMAIN data THEN [dsync EXCEPT ![f] = Len(data[f].ents)] ELSE dsync
    /\ mghost' = [mghost EXCEPT !.leftover = -1]
    /\ wr' = MergeStartRec
    /\ UNCHANGED <<cfg, data, hint, hsync, keydir, stats, active, written, model, everIds, nops, ncrash>>
\* that fsync fails: merge_files returns before it created anything; the wrapper still moves the active file
FailSyncLeftover ==
    /\ CanFail /\ Faulted /\ wr.pc = "m.sync_leftover"
    /\ wr' = [pc |-> "fm.unlinkhint", out |-> active + 1]
    /\ UNCHANGED <<vars_but_wr, allowed>>

\* open: the create fails, open returns the error, nothing changed
FailReopen ==
    /\ CanFail /\ Faulted /\ wr = Idle /\ "reopen" \in Ops
    /\ nops' = nops + 1
    /\ UNCHANGED <<cfg, data, hint, dsync, hsync, keydir, stats, active, written, wr, model, everIds, ncrash, mghost, allowed>>

-----------------------------------------------------------------------------------------
Quiet == UNCHANGED <<nfault, allowed>>
FPublish ==
    /\ wr.pc = "publish" /\ allowed' = [allowed EXCEPT ![wr.k] = {NewVal}]
    /\ PublishStep /\ UNCHANGED nfault

FNext ==
    \/ ("put" \in Ops /\ \E k \in Keys, v \in Vals : FStartWrite(k, v))
    \/ ("del" \in Ops /\ \E k \in Keys : FStartWrite(k, Tomb))
    \/ ("merge" \in Ops /\ FStartMerge /\ Quiet) \/ (FSyncLeftover /\ Quiet) \/ FailSyncLeftover
    \/ ("reopen" \in Ops /\ Reopen /\ Quiet)
    \/ ((AppendStep \/ SyncStep \/ AccountStep \/ RollStep \/ MergeStep) /\ Quiet)
    \/ FPublish
    \/ FailAppend \/ FailAppendShort \/ FNewActive \/ FDropFlush \/ FRet \/ FailSync \/ FailRoll
    \/ FailMerge \/ FMergeUnlinkHint \/ FMergeNewActive \/ FailMergeNewActive \/ FailReopen
FSpec == FInit /\ [][FNext]_fvars

-----------------------------------------------------------------------------------------
(* C20 *)
\* in the running process and after a restart every key reads one of its allowed values
FaultContainedLive == \A k \in Keys : ReadKey(keydir, data, k) \in allowed[k]
FaultContainedRestart == IdleState => \A k \in Keys : RecoveredMap(data, hint)[k] \in allowed[k]
\* C09 after a failure: under sync=always, whatever a power loss leaves (every file cut anywhere at or after
\* its last fsync), every key recovers to one of its allowed values - in particular a merge that follows a
\* failed one never removes the only durable copy of a value.  (A restart between the failed merge and the
\* next one loses the writer's memory of the leftover: checked on instances without reopen.)
FInflight == wr.pc \in {"append", "sync", "account", "roll", "publish", "f.newactive", "f.dropflush", "f.ret"}
AllowedNow(k) == allowed[k] \cup (IF FInflight /\ wr.k = k THEN {IF wr.v = Tomb THEN None ELSE wr.v} ELSE {})
FaultPowerLossSafe ==
    cfg.sync = "always" =>
        \A cd \in DataCuts, ch \in HintCuts :
            LET m == RecoveredMap([f \in DOMAIN data |-> CutFile(data[f], cd[f])],
                                  [f \in DOMAIN hint |-> CutFile(hint[f], ch[f])])
            IN \A k \in Keys : m[k] \in AllowedNow(k)

\* the store stays usable: whatever step comes next is not blocked by what the failure left behind
StaysUsable ==
    /\ (wr.pc \in {"roll", "f.newactive"} => active + 1 \notin DOMAIN data)
    /\ (wr.pc = "m.create_data" => wr.out \notin DOMAIN data)
    /\ (wr.pc = "m.create_hint" => wr.out \notin DOMAIN hint)
    /\ (wr.pc = "fm.newactive" /\ "MergeFailKeepsActive" \notin FDev => wr.out + 1 \notin DOMAIN data)
    /\ (IdleState => DOMAIN stats \subseteq DOMAIN data)           \* merge stats every file it knows
    /\ (IdleState => active \in DOMAIN data)                        \* the writer never appends to a removed file
    /\ (IdleState => \A f \in DOMAIN data : f <= active)            \* and never below files that exist
=======================================================================================
