--------------------------------- MODULE TraceResp ---------------------------------
(***************************************************************************************)
(* Implementation -> specification for the RESP codec (C07, C08).                       *)
(*                                                                                     *)
(* Input (IOEnv.TRACE): observations recorded by respdrive.                             *)
(*   bytes    buf off check parse   the real Frame::check / Frame::parse on `buf` with   *)
(*                                  the cursor at `off` (TLC-generated strings, padded   *)
(*                                  variants, digit/nesting stretches, seeded fuzz)      *)
(*   deepnest k complete check parse   k nested '*1\r\n' headers (too long to list)      *)
(*   longrun  unit k check parse ref_* one unit repeated k times (1 MiB), and 64 times    *)
(*   conn     frames write encoded runs   frames written by the real write_frame and    *)
(*                                  read back by read_frame under segmentations / EOFs  *)
(*                                                                                     *)
(* For every observation TLC evaluates the operators of Resp.tla on the SAME input and  *)
(* compares.  Verdicts are property-level: a panic/abort, a number read with another    *)
(* value, a non-number or out-of-range number accepted, check/parse disagreeing on the  *)
(* length (C07); a stream not decoding back to its frames, a prefix not incomplete, EOF  *)
(* inside a frame reported as clean (C08).  Any other difference from the transcription *)
(* (error classes, leniencies) is printed as DRIFT and is not an alarm.                 *)
(***************************************************************************************)
EXTENDS Resp, Json, IOUtils

Rec == ndJsonDeserialize(IOEnv.TRACE)
Has(r, f) == f \in DOMAIN r

VARIABLES l, bad
vars == <<l, bad>>

V(p, why) == [p |-> p, why |-> why]
OK == V("", "")

Died(o) == o.kind \in {"panic", "abort"}

SameOutcome(o, s) ==
    /\ o.kind = s.kind
    /\ (o.kind = "ok" => o.next = s.next)
    /\ (o.kind = "err" => o.class = s.class)

BytesVerdict(r) ==
    LET c == Check(r.buf, r.off, 0)
        p == Parse(r.buf, r.off, 0)
        oc == r.check
        op == r.parse
    IN IF Died(oc) THEN V("C07", "Frame::check " \o oc.kind \o "s")
       ELSE IF Died(op) THEN V("C07", "Frame::parse " \o op.kind \o "s")
       ELSE IF oc.kind = "ok" /\ op.kind = "ok" /\ oc.next # op.next
              THEN V("C07", "check accepts n bytes but parse succeeds with a different length")
       ELSE IF op.kind = "ok" /\ p.kind = "ok" /\ (op.frame # p.frame \/ op.next # p.next)
              THEN V("C07", "parse reads a different frame / number than the bytes say")
       ELSE IF oc.kind = "ok" /\ c.kind = "ok" /\ oc.next # c.next
              THEN V("C07", "check reads a different length than the bytes say")
       ELSE IF op.kind = "ok" /\ p.kind = "err" /\ p.class = "notint"
              THEN V("C07", "parse accepts a number that is not a decimal in the i64 range")
       ELSE IF oc.kind = "ok" /\ c.kind = "err" /\ c.class = "notint"
              THEN V("C07", "check accepts a number that is not a decimal in the i64 range")
       ELSE IF op.kind = "ok" /\ p.kind = "inc"
              THEN V("C07", "parse produces a frame from bytes that do not contain one yet")
       ELSE IF ~SameOutcome(oc, c) \/ ~SameOutcome(op, p)
              THEN V("drift", "outcome differs from the transcription")
       ELSE OK

\* k headers '*1\r\n' then (complete) ':1\r\n'
NestExpect(k, complete) ==
    IF k > MaxNesting THEN "err" ELSE IF complete THEN "ok" ELSE "inc"
NestVerdict(r) ==
    IF Died(r.check) THEN V("C07", "Frame::check " \o r.check.kind \o "s on deeply nested arrays")
    ELSE IF Died(r.parse) THEN V("C07", "Frame::parse " \o r.parse.kind \o "s on deeply nested arrays")
    ELSE IF r.check.kind # NestExpect(r.k, r.complete) \/ r.parse.kind # NestExpect(r.k, r.complete)
           THEN V("drift", "nesting limit differs from the transcription")
    ELSE OK

\* a long run of one repeated unit: nobody dies, and nothing depends on the length of the run
LongRunVerdict(r) ==
    IF Died(r.check) THEN V("C07", "Frame::check " \o r.check.kind \o "s on a long run of one repeated unit")
    ELSE IF Died(r.parse) THEN V("C07", "Frame::parse " \o r.parse.kind \o "s on a long run of one repeated unit")
    ELSE IF r.check.kind # r.ref_check.kind \/ r.parse.kind # r.ref_parse.kind
           THEN V("drift", "the outcome for a long run differs from the outcome for 64 repetitions")
    ELSE OK

\* one read-back run of a conn observation
\* large frames are recorded as references to the frame written at the same position
Resolve(r, got) == [i \in 1..Len(got) |-> IF got[i].t = "same" THEN r.frames[got[i].i] ELSE got[i]]
RunVerdict(r, run0) ==
    LET run == [run0 EXCEPT !.got = Resolve(r, @)]
        whole == run.upto = Len(r.encoded)
        exp == ReadAll(SubSeq(r.encoded, 1, run.upto))
    IN IF run.end = "panic" THEN V("C08", "read_frame panics")
       ELSE IF whole /\ (run.got # r.frames \/ run.end # "clean")
              THEN V("C08", "the written frames are not read back (" \o run.how \o ")")
       ELSE IF ~whole /\ run.got # exp.frames
              THEN V("C08", "a stream cut short does not deliver exactly the complete frames before the cut")
       ELSE IF ~whole /\ exp.end = "reset" /\ run.end = "clean"
              THEN V("C08", "end of stream inside a frame is reported as a clean end")
       ELSE IF ~whole /\ exp.end = "clean" /\ run.end # "clean"
              THEN V("C08", "end of stream at a frame boundary is reported as an error")
       ELSE OK

RECURSIVE FirstBad(_, _, _)
FirstBad(r, runs, i) ==
    IF i > Len(runs) THEN OK
    ELSE LET v == RunVerdict(r, runs[i]) IN IF v # OK THEN v ELSE FirstBad(r, runs, i + 1)

ConnVerdict(r) ==
    IF r.write # "ok" THEN V("C08", "write_frame fails on a writable frame: " \o r.write)
    ELSE LET v == FirstBad(r, r.runs, 1)
         IN IF v # OK THEN v
            ELSE IF r.encoded # EncodeAll(r.frames) THEN V("drift", "encoding differs from the transcription")
            ELSE OK

Verdict(r) ==
    CASE r.ev = "bytes" -> BytesVerdict(r)
      [] r.ev = "deepnest" -> NestVerdict(r)
      [] r.ev = "longrun" -> LongRunVerdict(r)
      [] r.ev = "conn" -> ConnVerdict(r)
      [] OTHER -> OK

Init == l = 2 /\ bad = OK
Next == /\ l <= Len(Rec)
        /\ l' = l + 1
        /\ LET v == Verdict(Rec[l])
           IN bad' = IF v.p = "drift" THEN (IF PrintT(<<"DRIFT", l, v.why>>) THEN OK ELSE OK) ELSE v
Spec == Init /\ [][Next]_vars

C07_ParserTotalAndExact == bad.p # "C07"
C08_RoundTrip == bad.p # "C08"

Accepted ==
    LET d == TLCGet("stats").diameter
    IN IF d = Len(Rec) THEN TRUE
       ELSE Print(<<"TRACE NOT ACCEPTED: consumed", d - 1, "of", Len(Rec) - 1>>, FALSE)
ErrAlias == [line |-> l - 1, why |-> bad.why]
====================================================================================
