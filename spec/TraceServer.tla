--------------------------------- MODULE TraceServer ---------------------------------
(***************************************************************************************)
(* Implementation -> specification, MECHANISM level, for the network server: is the      *)
(* recorded sequence of server hook events and client actions a behaviour of Server.tla? *)
(*                                                                                     *)
(* Input (IOEnv.TRACE): one event per scenario of netdrive's `limit` / `shutdown` modes  *)
(* carrying `timeline`: the client actions (logged BEFORE the socket call is issued, so   *)
(* they precede whatever the server does in reaction) and the server hook events, merged  *)
(* by one process-wide sequence counter:                                                  *)
(*   c.connect c | c.send c kind | c.close c          client side (kind: "get" "bad"      *)
(*                                                     "boom" "half")                     *)
(*   srv.permit_acquired available | srv.accepted c | srv.handler_dropping available |        *)
(*   srv.run_dropped_senders | srv.run_return | fire | srv.accept_failed (injected)       *)
(* Each such event must be explained by the corresponding action of Server.tla           *)
(* (ListenerAcquire with the permit count it reports, ListenerAccept(c), a handler ending *)
(* in any of the ways that drop it, ...); the handler's internal steps (taking a request, *)
(* executing it, writing the reply, seeing end-of-stream or the shutdown broadcast) are   *)
(* silent.  TLC searches depth-first; a rejection is model drift, not an alarm.           *)
(***************************************************************************************)
EXTENDS Server, Json, IOUtils

VARIABLES l,      \* the scenario (line of the trace file)
          i       \* next event of its timeline
tvars == <<vars, l, i>>

Rec == ndJsonDeserialize(IOEnv.TRACE)
N == Len(Rec)
TL == Rec[l].timeline
ASSUME TLCSet(1, 2) /\ TLCSet(2, 1)

ConnName(n) == "c" \o ToString(n)
TrConns == {ConnName(n) : n \in 1..40}

E == TL[i]
Consume == i' = i + 1 /\ l' = l /\ TLCSet(2, IF l = TLCGet(1) /\ i + 1 > TLCGet(2) THEN i + 1 ELSE TLCGet(2))

TInit ==
    /\ l = 2 /\ i = 1
    /\ permits = (IF N >= 2 THEN Rec[2].max ELSE MaxConn) /\ listener = "acquire"
    /\ cstate = [c \in Conns |-> "new"] /\ cli = [c \in Conns |-> "open"]
    /\ inbuf = [c \in Conns |-> <<>>] /\ partial = [c \in Conns |-> FALSE]
    /\ h = [c \in Conns |-> NoH] /\ got = [c \in Conns |-> <<>>] /\ nsent = [c \in Conns |-> 0]
    /\ store = [k \in Keys |-> None] /\ applied = <<>>
    /\ shutdown = "no" /\ returned = FALSE

\* the request a send event stands for
ReqOf(kind) ==
    CASE kind = "get" -> [op |-> "get", k |-> "k"]
      [] kind = "set" -> [op |-> "set", k |-> "k", v |-> "a"]
      [] kind = "bad" -> [op |-> "bad"]
      [] kind = "boom" -> [op |-> "boom"]

\* Steps without an event.  Handlers' internal steps commute as far as the recorded events are
\* concerned, so they are taken eagerly and in one canonical order (lowest connection first): an
\* event is consumed only when no internal step is pending.  This keeps the search linear.
ConnSeq == [n \in 1..40 |-> ConnName(n)]
SilentWork(c) ==
    \/ (h[c].pc = "select" /\ inbuf[c] # <<>> /\ Head(inbuf[c]).op # "bad")
    \/ (h[c].pc = "exec" /\ h[c].r.op # "boom")
    \/ (h[c].pc = "write1" /\ cli[c] = "open")
    \/ h[c].pc = "write2"
Pending == {n \in 1..40 : SilentWork(ConnSeq[n])}
Quiescent == Pending = {} /\ shutdown # "fired"
Silent ==
    /\ l <= N
    /\ IF shutdown = "fired" THEN RunDropsNotify
       ELSE /\ Pending # {}
            /\ LET c == ConnSeq[CHOOSE n \in Pending : \A m \in Pending : n <= m]
               IN HandlerTakesRequest(c) \/ HandlerExec(c) \/ HandlerWrite1(c) \/ HandlerWrite2(c)
    /\ UNCHANGED <<l, i>>

Ev(name) == l <= N /\ i <= Len(TL) /\ E.name = name /\ Quiescent

EvConnect == Ev("c.connect") /\ ClientConnect(E.c) /\ Consume
EvSend ==
    /\ Ev("c.send")
    /\ IF E.kind = "half" THEN ClientSendHalf(E.c) ELSE ClientSend(E.c, ReqOf(E.kind))
    /\ Consume
EvClose == Ev("c.close") /\ ClientClose(E.c) /\ Consume
\* acquire().forget(): the hook reports the permits left right after the acquire
EvAcquire == Ev("srv.permit_acquired") /\ ListenerAcquire /\ E.available <= permits' /\ Consume
\* (a connection that was reset while waiting has no peer address: which one it was is inferred)
EvAccept ==
    /\ Ev("srv.accepted")
    /\ IF E.c \in Conns THEN ListenerAccept(E.c) ELSE \E c \in Conns : ListenerAccept(c)
    /\ Consume
\* an accept(2) failure injected by the harness
EvAcceptFailed == Ev("srv.accept_failed") /\ ListenerAcceptFails /\ Consume
\* Drop for Handler: some handler ends (which one is inferred).  The event is logged right BEFORE
\* add_permits(1), so in the merged order a drop always precedes the acquire that takes its permit;
\* the permit numbers the hooks report are read a moment later and can only lag behind (<=).
EvHandlerDrop ==
    /\ Ev("srv.handler_dropping")
    /\ \E c \in Conns : \/ (HandlerTakesRequest(c) /\ h'[c].pc = "gone")
                       \/ HandlerSeesEof(c)
                       \/ HandlerSeesShutdown(c)
                       \/ (HandlerExec(c) /\ h'[c].pc = "gone")
                       \/ (HandlerWrite1(c) /\ h'[c].pc = "gone")
    /\ E.available < permits'
    /\ Consume
\* the same drop seen again after add_permits(1): carries no further step
EvSkip == Ev("srv.handler_drop") /\ Consume /\ UNCHANGED vars
EvFire == Ev("fire") /\ ShutdownFires /\ Consume
\* drop(notify_shutdown); drop(shutdown_complete_tx): one hook after both
EvDroppedSenders == Ev("srv.run_dropped_senders") /\ shutdown = "notified" /\ RunDropsCompleteTx /\ Consume
EvRunReturn == Ev("srv.run_return") /\ RunReturns /\ Consume

\* next scenario: a fresh server
NextScenario ==
    /\ l <= N /\ i = Len(TL) + 1
    /\ l' = l + 1 /\ i' = 1
    /\ (IF l + 1 > TLCGet(1) THEN TLCSet(1, l + 1) /\ TLCSet(2, 1) ELSE TRUE)
    /\ permits' = (IF l + 1 <= N THEN Rec[l + 1].max ELSE MaxConn) /\ listener' = "acquire"
    /\ cstate' = [c \in Conns |-> "new"] /\ cli' = [c \in Conns |-> "open"]
    /\ inbuf' = [c \in Conns |-> <<>>] /\ partial' = [c \in Conns |-> FALSE]
    /\ h' = [c \in Conns |-> NoH] /\ got' = [c \in Conns |-> <<>>] /\ nsent' = [c \in Conns |-> 0]
    /\ store' = [k \in Keys |-> None] /\ applied' = <<>>
    /\ shutdown' = "no" /\ returned' = FALSE

Progress == TLCSet(2, IF l = TLCGet(1) /\ i > TLCGet(2) THEN i ELSE IF l > TLCGet(1) THEN 1 ELSE TLCGet(2))

TNext ==
    \/ EvConnect \/ EvSend \/ EvClose \/ EvAcquire \/ EvAccept \/ EvHandlerDrop \/ EvFire
    \/ EvDroppedSenders \/ EvRunReturn \/ EvSkip \/ EvAcceptFailed \/ Silent \/ NextScenario
TSpec == TInit /\ [][TNext]_tvars

Accepted ==
    IF TLCGet(1) = N + 1 THEN TRUE
    ELSE Print(<<"SERVER MECHANISM DRIFT: scenario at line", TLCGet(1), "is not a behaviour of Server.tla; furthest event", TLCGet(2),
                 IF TLCGet(1) <= N /\ TLCGet(2) <= Len(Rec[TLCGet(1)].timeline) THEN Rec[TLCGet(1)].timeline[TLCGet(2)] ELSE "-">>, FALSE)
=======================================================================================
