------------------------------- MODULE MC_Seq -------------------------------
(* Bounded instance: sequential client, atomic view or crash view, base scope (S-base) *)
EXTENDS Bitcask

MCKLen == [k \in Keys |-> 1]
\* "vB" is a value above the write buffer: its record reaches the file in two write(2) calls (26 + 9000 bytes)
MCVLen == [v \in Vals |-> IF v = "v0" THEN 0 ELSE IF v = "vB" THEN 9000 ELSE 1]

Big == 1000000
\* thresholds: all files / fragmented only (> 1/2) / dead bytes only (> 20) / nothing
ThAll  == [thFragNum |-> 1, thFragDen |-> 1, thDead |-> Big, thSmall |-> Big]
ThFrag == [thFragNum |-> 1, thFragDen |-> 2, thDead |-> Big, thSmall |-> 0]
ThDead == [thFragNum |-> 1, thFragDen |-> 1, thDead |-> 20, thSmall |-> 0]
ThNone == [thFragNum |-> 1, thFragDen |-> 1, thDead |-> Big, thSmall |-> 0]
Mk(mf, sy, th) == [maxFile |-> mf, sync |-> sy] @@ th

MCConfigs == {Mk(mf, "none", th) : mf \in {0, 26, 60, Big}, th \in {ThAll, ThFrag, ThDead, ThNone}}
MCConfigsSync == {Mk(mf, "always", th) : mf \in {0, 60}, th \in {ThAll, ThFrag}}

\* the two configurations that exercise the most mechanism (every append rolls over / two
\* entries per file; merges select everything / only fragmented files): used for deeper generation
MCConfigsGen2 == {Mk(0, "none", ThAll), Mk(26, "none", ThFrag)}

\* the four configurations used for the system-call level generation (crash / fault scopes)
MCConfigsFs == {Mk(mf, "none", th) : mf \in {0, 60}, th \in {ThAll, ThFrag}}

\* deeper generation for the crash / power scopes: an older, mostly-live file below an eligible one
MCConfigsDeep == {Mk(60, "none", ThFrag), Mk(26, "none", ThDead)}
MCConfigsDeepSync == {Mk(60, "always", ThFrag), Mk(26, "always", ThDead)}

\* scope with a record above the write buffer ("vB"): file sizes below one big record / between one and two / unbounded
MCConfigsBig == {Mk(mf, "none", th) : mf \in {60, 10000, Big}, th \in {ThAll, ThFrag, ThDead}}
MCConfigsBigSync == {Mk(mf, "always", th) : mf \in {60, 10000}, th \in {ThAll, ThFrag}}

\* merge selection by the size criterion ALONE while older files are not small: two entries per file, files
\* below 50 bytes are "small", counters practically never select (fragmentation > 3/4, dead bytes never)
ThSmall50 == [thFragNum |-> 3, thFragDen |-> 4, thDead |-> Big, thSmall |-> 50]
MCConfigsSmallOnly == {Mk(50, "none", ThSmall50)}

\* one configuration: one file for everything, every merge takes every file
MCConfigsOneAll == {Mk(Big, "none", ThAll)}

OpsBound == nops <= MaxOps
==============================================================================
