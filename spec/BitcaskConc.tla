--------------------------------- MODULE BitcaskConc ---------------------------------
(***************************************************************************************)
(* Concurrent view of the storage engine (C04): one writer, reader threads that take a  *)
(* Reader object from the pool, and a merger, interleaved at the granularity of their   *)
(* critical sections and of the writer's individual write(2) calls.                     *)
(*                                                                                     *)
(* What matters for readers is abstracted from Bitcask.tla:                             *)
(*   - a data file is its length in bytes plus the entries that are completely written  *)
(*     (an append of a large entry grows the file in two steps);                        *)
(*   - the keydir maps a key to (file, pos, len, value); the writer publishes an entry  *)
(*     only after all its bytes are in the file (and after a possible rollover);        *)
(*   - every Reader object keeps, per file, the length of its memory mapping; it re-maps *)
(*     when the wanted range ends beyond the mapping (RemapRule) and fails with an       *)
(*     error - or, under the old rule, panics - if the range is still out of reach;     *)
(*   - a get holds the keydir shard read lock from lookup to the end of the read; the   *)
(*     merger iterates with DashMap::iter_mut, i.e. it holds the shard WRITE lock from   *)
(*     before it copies an entry until after it wrote the entry's hint (copy, re-point,  *)
(*     hint), so it waits for gets inside a read and lookups wait for it;                *)
(*   - the merger copies live entries of the selected (here: all non-active) files to a *)
(*     new file, re-points them one by one, then unlinks the inputs; a reader that has  *)
(*     a file mapped keeps reading it after the unlink.                                 *)
(* Keys live in one DashMap shard (the worst case for lock interaction).                *)
(***************************************************************************************)
EXTENDS Naturals, Integers, Sequences, FiniteSets, TLC

CONSTANTS
    Keys, Vals,
    BigVals,        \* subset of Vals whose entries are larger than the write buffer (2 write calls)
    Readers,        \* reader threads
    PoolSize,       \* number of Reader objects in the pool
    WriterOps,      \* bound on writer operations
    ReaderOps,      \* bound on gets per reader thread
    MaxMerges,
    RemapRule,      \* "end" (pos + len > maplen, the repaired rule) or "start" (pos >= maplen)
    HoldShardLock   \* TRUE: a get keeps the shard lock until the read is done (as in the code)

None == "none"
NoKE == [fid |-> -1, pos |-> 0, len |-> 0, v |-> None]
Small == 30       \* bytes of an entry that fits the buffer
HeadLen == 30     \* first write call of a large entry
BodyLen == 100    \* second write call of a large entry
ELen(v) == IF v \in BigVals THEN HeadLen + BodyLen ELSE Small
MaxFile == 150    \* rollover threshold

VARIABLES
    flen,      \* [file id -> bytes in the file]         (domain = existing files)
    keydir,    \* [Keys -> keydir entry]
    active,
    wr,        \* writer thread state
    rd,        \* [Readers -> reader thread state]
    pool,      \* set of Reader objects available
    maps,      \* [reader object -> [file id -> mapped length]]  (partial: files it has open)
    mg,        \* merger state
    model,     \* the linearized abstract map
    nw, nr, nm,\* operation counters
    panicked,  \* a get hit an out-of-range slice
    hist       \* per reader: <<key, model value at the lookup, value returned>> of finished gets

vars == <<flen, keydir, active, wr, rd, pool, maps, mg, model, nw, nr, nm, panicked, hist>>

Objs == 1..PoolSize
Idle == [pc |-> "idle"]

Init ==
    /\ flen = (0 :> 0) /\ keydir = [k \in Keys |-> NoKE] /\ active = 0
    /\ wr = Idle /\ rd = [r \in Readers |-> Idle] /\ pool = Objs
    /\ maps = [o \in Objs |-> <<>>] /\ mg = Idle
    /\ model = [k \in Keys |-> None] /\ nw = 0 /\ nr = [r \in Readers |-> 0] /\ nm = 0
    /\ panicked = FALSE /\ hist = [r \in Readers |-> <<>>]

With(f, x, v) == [y \in (DOMAIN f) \cup {x} |-> IF y = x THEN v ELSE f[y]]
Drop(f, x) == [y \in (DOMAIN f) \ {x} |-> f[y]]

\* the writer mutex: put/delete and merge exclude each other
WriterFree == wr = Idle /\ mg = Idle
\* the shard lock: readers between lookup and the end of the read hold it shared
ShardReadHeld == HoldShardLock /\ \E r \in Readers : rd[r].pc \in {"map", "slice"}
\* the merger holds it exclusively from the copy of an entry to the end of that loop iteration
ShardWriteHeld == mg.pc \in {"repoint", "hint"}

-----------------------------------------------------------------------------------------
(* Writer: put(k, v) / delete(k) *)
StartPut(k, v) ==
    /\ WriterFree /\ nw < WriterOps
    /\ nw' = nw + 1
    /\ wr' = [pc |-> IF v \in BigVals THEN "w1" ELSE "w", k |-> k, v |-> v, pos |-> flen[active], fid |-> active]
    /\ UNCHANGED <<flen, keydir, active, rd, pool, maps, mg, model, nr, nm, panicked, hist>>
\* first write(2) of a large entry: the header is in the file, the body is not
WriteHead ==
    /\ wr.pc = "w1"
    /\ flen' = [flen EXCEPT ![active] = @ + HeadLen]
    /\ wr' = [wr EXCEPT !.pc = "w2"]
    /\ UNCHANGED <<keydir, active, rd, pool, maps, mg, model, nw, nr, nm, panicked, hist>>
\* the (last) write(2): the entry is complete; then the rollover decision
WriteRest ==
    /\ wr.pc \in {"w", "w2"}
    /\ LET add == IF wr.pc = "w2" THEN BodyLen ELSE IF wr.v = None THEN Small ELSE ELen(wr.v)
           newlen == flen[active] + add
       IN /\ flen' = IF newlen > MaxFile THEN With([flen EXCEPT ![active] = newlen], active + 1, 0)
                     ELSE [flen EXCEPT ![active] = newlen]
          /\ active' = IF newlen > MaxFile THEN active + 1 ELSE active
    /\ wr' = [wr EXCEPT !.pc = "publish"]
    /\ UNCHANGED <<keydir, rd, pool, maps, mg, model, nw, nr, nm, panicked, hist>>
\* keydir.insert / remove needs the shard write lock: waits for readers inside a read
Publish ==
    /\ wr.pc = "publish" /\ ~ShardReadHeld
    /\ keydir' = [keydir EXCEPT ![wr.k] = IF wr.v = None THEN NoKE
                                          ELSE [fid |-> wr.fid, pos |-> wr.pos, len |-> ELen(wr.v), v |-> wr.v]]
    /\ model' = [model EXCEPT ![wr.k] = wr.v]       \* the linearization point of a write
    /\ wr' = Idle
    /\ UNCHANGED <<flen, active, rd, pool, maps, mg, nw, nr, nm, panicked, hist>>

-----------------------------------------------------------------------------------------
(* Reader thread: get(k) *)
Pop(r, k) ==
    /\ rd[r].pc = "idle" /\ nr[r] < ReaderOps /\ pool # {}
    /\ LET o == CHOOSE x \in pool : TRUE IN
        /\ pool' = pool \ {o}
        /\ rd' = [rd EXCEPT ![r] = [pc |-> "lookup", k |-> k, o |-> o]]
    /\ nr' = [nr EXCEPT ![r] = @ + 1]
    /\ UNCHANGED <<flen, keydir, active, wr, maps, mg, model, nw, nm, panicked, hist>>
\* keydir.get: the linearization point of a get; the shard stays read-locked
Lookup(r) ==
    /\ rd[r].pc = "lookup" /\ ~ShardWriteHeld
    /\ LET e == keydir[rd[r].k] IN
        IF e = NoKE
          THEN /\ rd' = [rd EXCEPT ![r] = Idle]
               /\ pool' = pool \cup {rd[r].o}
               /\ hist' = [hist EXCEPT ![r] = Append(@, <<rd[r].k, model[rd[r].k], None>>)]
          ELSE /\ rd' = [rd EXCEPT ![r] = [pc |-> "map", k |-> rd[r].k, o |-> rd[r].o, e |-> e, lin |-> model[rd[r].k]]]
               /\ UNCHANGED <<pool, hist>>
    /\ UNCHANGED <<flen, keydir, active, wr, maps, mg, model, nw, nr, nm, panicked>>
\* LogDir::read: open + map the file if this Reader object does not have it, else re-map by the rule
MapStep(r) ==
    /\ rd[r].pc = "map"
    /\ LET o == rd[r].o e == rd[r].e m == maps[o] IN
        IF e.fid \notin DOMAIN m
          THEN IF e.fid \in DOMAIN flen
                 THEN /\ maps' = [maps EXCEPT ![o] = With(m, e.fid, flen[e.fid])]
                      /\ rd' = [rd EXCEPT ![r] = [@ EXCEPT !.pc = "slice"]]
                      /\ UNCHANGED <<pool, hist>>
                 ELSE \* the file was unlinked before this reader opened it: get returns an error
                      /\ rd' = [rd EXCEPT ![r] = Idle] /\ pool' = pool \cup {o}
                      /\ hist' = [hist EXCEPT ![r] = Append(@, <<rd[r].k, rd[r].lin, "error">>)]
                      /\ UNCHANGED maps
          ELSE LET need == IF RemapRule = "end" THEN e.pos + e.len > m[e.fid] ELSE e.pos >= m[e.fid]
               IN /\ maps' = IF need /\ e.fid \in DOMAIN flen THEN [maps EXCEPT ![o] = With(m, e.fid, flen[e.fid])] ELSE maps
                  /\ rd' = [rd EXCEPT ![r] = [@ EXCEPT !.pc = "slice"]]
                  /\ UNCHANGED <<pool, hist>>
    /\ UNCHANGED <<flen, keydir, active, wr, mg, model, nw, nr, nm, panicked>>
\* &mmap[pos .. pos+len]: out of range = panic (the reader object is lost with the unwinding thread)
Slice(r) ==
    /\ rd[r].pc = "slice"
    /\ LET o == rd[r].o e == rd[r].e IN
        IF e.pos + e.len > maps[o][e.fid]
          THEN /\ panicked' = TRUE
               /\ rd' = [rd EXCEPT ![r] = [pc |-> "dead"]]
               /\ UNCHANGED <<pool, hist>>
          ELSE /\ rd' = [rd EXCEPT ![r] = Idle]
               /\ pool' = pool \cup {o}
               /\ hist' = [hist EXCEPT ![r] = Append(@, <<rd[r].k, rd[r].lin, e.v>>)]
               /\ UNCHANGED panicked
    /\ UNCHANGED <<flen, keydir, active, wr, maps, mg, model, nw, nr, nm>>

-----------------------------------------------------------------------------------------
(* Merger: all files below the active one are merged into active+1, new active is active+2 *)
StartMerge ==
    /\ WriterFree /\ nm < MaxMerges
    /\ nm' = nm + 1
    /\ flen' = With(flen, active + 1, 0)
    /\ mg' = [pc |-> "copy", sel |-> DOMAIN flen, out |-> active + 1, k |-> None, pos |-> 0]
    /\ UNCHANGED <<keydir, active, wr, rd, pool, maps, model, nw, nr, panicked, hist>>
MergeTodo == {k \in Keys : keydir[k] # NoKE /\ keydir[k].fid \in mg.sel}
\* iter_mut yields the first entry: shard write lock, then the copy (the bytes reach the output
\* before the index is touched)
CopyOf(k) ==
    /\ flen' = [flen EXCEPT ![mg.out] = @ + keydir[k].len]
    /\ mg' = [mg EXCEPT !.pc = "repoint", !.k = k, !.pos = flen[mg.out]]
MergeCopy(k) ==
    /\ mg.pc = "copy" /\ k \in MergeTodo /\ ~ShardReadHeld
    /\ CopyOf(k)
    /\ UNCHANGED <<keydir, active, wr, rd, pool, maps, model, nw, nr, nm, panicked, hist>>
\* keydir_entry.fileid/pos = ... in place, under the lock taken for the copy
MergeRepoint ==
    /\ mg.pc = "repoint"
    /\ keydir' = [keydir EXCEPT ![mg.k] = [@ EXCEPT !.fid = mg.out, !.pos = mg.pos]]
    /\ mg' = [mg EXCEPT !.pc = "hint"]
    /\ UNCHANGED <<flen, active, wr, rd, pool, maps, model, nw, nr, nm, panicked, hist>>
\* the hint is written, the guard of this entry is dropped, and the iterator moves on: either it
\* locks and copies the next entry (waiting for gets inside a read) or the loop is over
MergeHintNext ==
    /\ mg.pc = "hint"
    /\ IF MergeTodo = {}
         THEN /\ mg' = [mg EXCEPT !.pc = "finishing", !.k = None]
              /\ UNCHANGED flen
         ELSE /\ ~ShardReadHeld
              /\ \E k \in MergeTodo : CopyOf(k)
    /\ UNCHANGED <<keydir, active, wr, rd, pool, maps, model, nw, nr, nm, panicked, hist>>
MergeUnlinkAll ==
    /\ \/ (mg.pc = "copy" /\ MergeTodo = {})
       \/ mg.pc = "finishing"
    /\ flen' = With([f \in (DOMAIN flen) \ mg.sel |-> flen[f]], mg.out + 1, 0)
    /\ active' = mg.out + 1
    /\ mg' = Idle
    /\ UNCHANGED <<keydir, wr, rd, pool, maps, model, nw, nr, nm, panicked, hist>>

-----------------------------------------------------------------------------------------
Next ==
    \/ \E k \in Keys, v \in Vals \cup {None} : StartPut(k, v)
    \/ WriteHead \/ WriteRest \/ Publish
    \/ \E r \in Readers : (\E k \in Keys : Pop(r, k)) \/ Lookup(r) \/ MapStep(r) \/ Slice(r)
    \/ StartMerge \/ (\E k \in Keys : MergeCopy(k)) \/ MergeRepoint \/ MergeHintNext \/ MergeUnlinkAll
Fairness == /\ WF_vars(WriteHead \/ WriteRest \/ Publish)
            /\ WF_vars((\E k \in Keys : MergeCopy(k)) \/ MergeRepoint \/ MergeHintNext \/ MergeUnlinkAll)
            /\ \A r \in Readers : WF_vars(Lookup(r) \/ MapStep(r) \/ Slice(r))
Spec == Init /\ [][Next]_vars /\ Fairness

-----------------------------------------------------------------------------------------
(* C04 *)
NoPanic == ~panicked
\* every finished get returned the abstract value at its lookup, which lies inside the call
GetLinearizable == \A r \in Readers : \A i \in 1..Len(hist[r]) : hist[r][i][3] = hist[r][i][2]
\* Reader objects are never lost: all of them are in the pool or held by a get in progress
PoolConserved == Cardinality(pool) + Cardinality({r \in Readers : rd[r].pc \in {"lookup", "map", "slice"}}) = PoolSize
\* every started operation finishes (no get spins forever, no lock is held forever)
OpsTerminate == /\ (wr # Idle) ~> (wr = Idle)
                /\ (mg # Idle) ~> (mg = Idle)
                /\ \A r \in Readers : (rd[r].pc \in {"lookup", "map", "slice"}) ~> (rd[r].pc \in {"idle", "dead"})
=======================================================================================
