SPECIFICATION GSpec
CONSTANTS
  Keys = {"k1", "k2"}
  Vals = {"v1", "vb"}
  BigVals = {"vb"}
  Readers = {"r1", "r2"}
  PoolSize = 1
  WriterOps = 3
  ReaderOps = 2
  MaxMerges = 1
  RemapRule = "end"
  HoldShardLock = TRUE
INVARIANT Emit
CHECK_DEADLOCK FALSE
