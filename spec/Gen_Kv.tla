---------------------------------- MODULE Gen_Kv ----------------------------------
(* Every request sequence up to MaxLen over SET / GET / DEL (DEL with one to three keys,   *)
(* repeats included), printed for the network driver (C06).  Keys and values are symbolic; *)
(* the harness instantiates them with bytes (multi-byte UTF-8 keys, values holding CR, LF, *)
(* NUL, 0xFF, empty and multi-kilobyte values).                                            *)
EXTENDS Naturals, Sequences, TLC, Json
CONSTANTS MaxLen
VARIABLE reqs
K == {"k1", "k2"}
Vs == {"a", "b"}
DelLists == {<<"k1">>, <<"k2">>, <<"k1", "k1">>, <<"k1", "k2">>, <<"k2", "k1", "k2">>}
Reqs == [op : {"set"}, k : K, v : Vs] \cup [op : {"get"}, k : K] \cup [op : {"del"}, ks : DelLists]
Init == reqs = <<>>
Next == Len(reqs) < MaxLen /\ \E r \in Reqs : reqs' = Append(reqs, r)
Spec == Init /\ [][Next]_reqs
Emit == Len(reqs) = MaxLen => PrintT(<<"REQS", ToJson([reqs |-> reqs])>>)
===================================================================================
