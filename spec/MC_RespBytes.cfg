SPECIFICATION Spec
CONSTANTS
  Alphabet = {43, 45, 58, 36, 42, 48, 49, 50, 57, 13, 10, 97}
  MaxLen = 5
  EmitOn = FALSE
INVARIANTS CheckParseAgree ParseImpliesCheck IncompleteNeverParses PositionIndependent IntegerExact NestUniform Emit
CHECK_DEADLOCK FALSE
