SPECIFICATION TSpec
CONSTANTS
  Conns <- TrConns
  MaxConn = 1
  Keys = {"k"}
  Vals = {"a"}
  MaxReq = 1000
  Hostile <- TrConns
POSTCONDITION Accepted
CHECK_DEADLOCK FALSE
