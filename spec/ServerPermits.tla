------------------------------ MODULE ServerPermits ------------------------------
(***************************************************************************************)
(* The connection-slot accounting of src/net/server.rs on its own (C15), small enough   *)
(* for an UNBOUNDED argument: the invariant below is inductive, which Apalache checks    *)
(* symbolically for every state that satisfies it (any history of any length), for all  *)
(* limits 1..|Conns|.  Server.tla refines this module (TLC checks the refinement on the *)
(* bounded Server instances: PermitsRefinement in MC_ServerPermits.cfg), so the          *)
(* accounting argument carries over to the full server model, whose steps are in turn   *)
(* bound to the code by TraceServer.tla.                                                 *)
(*                                                                                     *)
(* A permit is in exactly one place: the semaphore, the listener (between               *)
(* acquire().forget() and the spawn of the handler, also while accept is retried), a    *)
(* live handler (returned by its Drop, however it ends), or lost - the one permit the   *)
(* listen() future holds when select! drops it at shutdown.                             *)
(***************************************************************************************)
EXTENDS Integers, FiniteSets

CONSTANTS
    \* @type: Set(Str);
    Conns,
    \* @type: Int;
    MaxConn

VARIABLES
    \* @type: Int;
    permits,      \* available permits of the semaphore
    \* @type: Str;
    listener,     \* "acquire" | "accept" | "retry" | "stopped"
    \* @type: Str -> Str;
    hpc,          \* per connection: "none" (not accepted yet) | "alive" (handler running) | "gone"
    \* @type: Str;
    shutdown,     \* "no" | "fired"
    \* @type: Int;
    lost          \* permits that went down with the listen() future (ghost)

vars == <<permits, listener, hpc, shutdown, lost>>

\* @type: () => Bool;
ConstInit4 == Conns = {"c1", "c2", "c3", "c4"} /\ MaxConn \in 1..4
\* @type: () => Bool;
ConstInit6 == Conns = {"c1", "c2", "c3", "c4", "c5", "c6"} /\ MaxConn \in 1..6

AliveSet == {c \in Conns : hpc[c] = "alive"}
Held == IF listener \in {"accept", "retry"} THEN 1 ELSE 0

Init ==
    /\ permits = MaxConn /\ listener = "acquire"
    /\ hpc = [c \in Conns |-> "none"]
    /\ shutdown = "no" /\ lost = 0

Acquire ==
    /\ listener = "acquire" /\ permits > 0
    /\ permits' = permits - 1 /\ listener' = "accept"
    /\ UNCHANGED <<hpc, shutdown, lost>>
AcceptFails ==
    /\ listener \in {"accept", "retry"} /\ listener' = "retry"
    /\ UNCHANGED <<permits, hpc, shutdown, lost>>
GiveUp ==
    /\ listener = "retry" /\ shutdown = "no"
    /\ shutdown' = "fired" /\ listener' = "stopped" /\ lost' = lost + 1
    /\ UNCHANGED <<permits, hpc>>
Accept(c) ==
    /\ listener \in {"accept", "retry"} /\ hpc[c] = "none"
    /\ hpc' = [hpc EXCEPT ![c] = "alive"] /\ listener' = "acquire"
    /\ UNCHANGED <<permits, shutdown, lost>>
\* Drop for Handler, whatever ended the handler (EOF, error, panic, shutdown)
HandlerEnds(c) ==
    /\ hpc[c] = "alive"
    /\ hpc' = [hpc EXCEPT ![c] = "gone"] /\ permits' = permits + 1
    /\ UNCHANGED <<listener, shutdown, lost>>
ShutdownFires ==
    /\ shutdown = "no"
    /\ shutdown' = "fired" /\ listener' = "stopped" /\ lost' = lost + Held
    /\ UNCHANGED <<permits, hpc>>

Next ==
    \/ Acquire \/ AcceptFails \/ GiveUp \/ ShutdownFires
    \/ \E c \in Conns : Accept(c) \/ HandlerEnds(c)
    \/ UNCHANGED vars          \* (Apalache treats a state without successor as a deadlock)

Spec == Init /\ [][Next]_vars

\* vacuity guard for the inductive argument: a listener that hands its permit back when accept fails although it
\* keeps using it (a seeded change of round 2); with NextBroken the induction step must fail
AcceptFailsReturnsPermit ==
    /\ listener \in {"accept", "retry"} /\ listener' = "retry" /\ permits' = permits + 1
    /\ UNCHANGED <<hpc, shutdown, lost>>
NextBroken == Next \/ AcceptFailsReturnsPermit

-----------------------------------------------------------------------------------------
TypeOK ==
    /\ permits \in 0..MaxConn
    /\ listener \in {"acquire", "accept", "retry", "stopped"}
    /\ hpc \in [Conns -> {"none", "alive", "gone"}]
    /\ shutdown \in {"no", "fired"}
    /\ lost \in 0..1

\* C15: never more than MaxConn connections are served
ServingAtMostMax == Cardinality(AliveSet) <= MaxConn
\* every permit is accounted for
Conservation == permits + Cardinality(AliveSet) + Held + lost = MaxConn
\* at most one permit is ever lost, and only by stopping the listener
LostOnlyAtShutdown == lost = 1 => listener = "stopped"
StoppedIffFired == (listener = "stopped") <=> (shutdown = "fired")
\* while the server has not been told to stop, no slot is ever leaked: after every handler has ended the
\* full configured number can be served again
NoLeakWhileRunning == shutdown = "no" => lost = 0

\* the inductive invariant: IndInv /\ [Next]_vars => IndInv'
IndInv == TypeOK /\ Conservation /\ LostOnlyAtShutdown /\ StoppedIffFired
\* what it implies (checked as ordinary invariants from IndInit at length 0)
Safety == ServingAtMostMax /\ NoLeakWhileRunning
IndInit == IndInv
=====================================================================================
