--------------------------------- MODULE TraceMech ---------------------------------
(***************************************************************************************)
(* Implementation -> specification, MECHANISM level: are the recorded executions        *)
(* behaviours of Bitcask.tla step by step?                                              *)
(*                                                                                     *)
(* Input (IOEnv.TRACE): the crash-mode traces of fsdrive (reset / inv / sys / crash /   *)
(* ret events in program order).  Every mutating system call the real store issued      *)
(* must be the next system-call step of the specification for the operation in flight   *)
(* (same call, same file kind and id, same byte count); the in-memory steps between     *)
(* them (account, publish, repoint, loop end) are silent steps the specification takes  *)
(* on its own; the DashMap iteration order of a merge is inferred (TLC branches over    *)
(* the keys whose record has the copied size).  When an operation returns, the          *)
(* specification must be idle and its keydir, statistics, active id, written bytes and  *)
(* file contents must EQUAL the dump and the independent scan recorded at that moment.  *)
(* At every crash probe the map the specification's Rebuild computes from ITS files     *)
(* must equal what the real recovery read from the real image.                          *)
(*                                                                                     *)
(* The fault-injection traces are validated the same way against BitcaskFault.tla: a     *)
(* call the shim failed must be a Fail* step at the program counter that issues that      *)
(* call, and the calls of the error path (new active file, the retained bytes landing     *)
(* when the writer is dropped, removal of the output's hint file, the new active file     *)
(* above the outputs) must follow as modelled.                                            *)
(* A rejection is "model drift" (the code no longer follows the modelled mechanism),    *)
(* never a property violation: properties are judged by TraceFs/TraceStore.             *)
(***************************************************************************************)
EXTENDS BitcaskFault, Json, IOUtils

VARIABLES l            \* next event
tvars == <<fvars, l>>
NoFaultChange == UNCHANGED <<nfault, allowed>>

Rec == ndJsonDeserialize(IOEnv.TRACE)
N == Len(Rec)
Hdr == Rec[1]
TrKeys == DOMAIN Hdr.keys
TrVals == DOMAIN Hdr.vals
TrKLen == [k \in TrKeys |-> Hdr.keys[k]]
TrVLen == [v \in TrVals |-> Hdr.vals[v]]
Has(r, f) == f \in DOMAIN r

ASSUME TLCSet(1, 2)
Reach(x) == TLCSet(1, IF x > TLCGet(1) THEN x ELSE TLCGet(1))

E == Rec[l]
Consume == l' = l + 1 /\ Reach(l + 1)

CfgOf(r) == [maxFile |-> r.maxFile, sync |-> r.sync, thFragNum |-> r.thFragNum,
             thFragDen |-> r.thFragDen, thDead |-> r.thDead, thSmall |-> r.thSmall]

\* a state before the very first open: an empty directory, nothing in memory
Blank(c) ==
    /\ cfg' = c /\ data' = <<>> /\ hint' = <<>> /\ dsync' = <<>> /\ hsync' = <<>>
    /\ keydir' = EmptyKeydir /\ stats' = <<>> /\ active' = 0 /\ written' = 0
    /\ wr' = [pc |-> "closed"] /\ model' = [k \in Keys |-> None]
    /\ everIds' = {} /\ nops' = 0 /\ ncrash' = 0 /\ mghost' = [lastFull |-> -1, leftover |-> -1]
    /\ nfault' = 0 /\ allowed' = [k \in Keys |-> {None}]

TInit ==
    /\ l = 2
    /\ cfg = [maxFile |-> 0, sync |-> "none", thFragNum |-> 1, thFragDen |-> 1, thDead |-> 0, thSmall |-> 0]
    /\ data = <<>> /\ hint = <<>> /\ dsync = <<>> /\ hsync = <<>>
    /\ keydir = EmptyKeydir /\ stats = <<>> /\ active = 0 /\ written = 0
    /\ wr = [pc |-> "closed"] /\ model = [k \in Keys |-> None]
    /\ everIds = {} /\ nops = 0 /\ ncrash = 0 /\ mghost = [lastFull |-> -1, leftover |-> -1]
    /\ nfault = 0 /\ allowed = [k \in Keys |-> {None}]

IsSys(r) == r.ev = "sys"
Mutating(r) == IsSys(r) /\ r.call \notin {"open_ro", "close"}
Injected(r) == IsSys(r) /\ Has(r, "injected") /\ r.injected

-----------------------------------------------------------------------------------------
(* events that are not steps of the specification *)
Skip ==
    /\ l <= N
    /\ \/ (IsSys(E) /\ ~Mutating(E))
       \/ E.ev = "power"
       \/ E.ev = "final"
       \/ E.ev = "closed"         \* (inside a reopen: the drop has returned; the code as modelled issues no call on its behalf)
       \/ E.ev = "fullmerge"      \* (the closing merge of a fault run is judged by TraceFs; only a reset follows)
    /\ Consume /\ UNCHANGED fvars

\* a crash probe: the specification's recovery of ITS directory agrees with the real one
CrashProbe ==
    /\ l <= N /\ E.ev = "crash"
    /\ E.rec.opened
    /\ \A k \in Keys : E.rec.map[k] = RecoveredMap(data, hint)[k]
    /\ Consume /\ UNCHANGED fvars

ResetEv ==
    /\ l <= N /\ E.ev = "reset"
    /\ Blank(CfgOf(E.cfg))
    /\ Consume

\* inv: the operation starts (open / reopen start when their create call is consumed)
InvEv ==
    /\ l <= N /\ E.ev = "inv"
    /\ CASE E.op \in {"open", "reopen"} ->
              /\ wr.pc \in {"closed", "idle", "openfailed"}
              /\ wr' = [pc |-> "opening"]
              /\ UNCHANGED <<cfg, data, hint, dsync, hsync, keydir, stats, active, written, model, everIds, nops, ncrash, mghost>>
              /\ NoFaultChange
         [] E.op = "put" -> FStartWrite(E.k, E.v)
         [] E.op = "del" -> FStartWrite(E.k, Tomb)
         [] E.op = "merge" -> FStartMerge /\ NoFaultChange
    /\ Consume

-----------------------------------------------------------------------------------------
(* system-call steps: the recorded call must be the call the specification is about to issue *)
IsCall(c, kind, id) == Mutating(E) /\ ~Injected(E) /\ E.call = c /\ E.kind = kind /\ E.id = id
IsFailed(c, kind, id) == Injected(E) /\ E.res < 0 /\ E.call = c /\ E.kind = kind /\ E.id = id

SysOpenCreate ==      \* Bitcask::open: rebuild (read only), then create max + 1
    /\ wr.pc = "opening"
    /\ IsCall("create", "data", IF DOMAIN data = {} THEN 0 ELSE Max(DOMAIN data) + 1) /\ E.res >= 0
    /\ OpenFrom(data, hint)
    /\ wr' = Idle
    /\ mghost' = [mghost EXCEPT !.leftover = -1]      \* the writer is a new object
    /\ UNCHANGED <<cfg, hint, hsync, model, nops, ncrash>>
    /\ NoFaultChange

SysAppend == wr.pc = "append" /\ IsCall("write", "data", active) /\ E.n = wr.calls[wr.ci] /\ AppendStep
SysSync == wr.pc = "sync" /\ IsCall("fsync", "data", active) /\ SyncStep
SysRoll == wr.pc = "roll" /\ IsCall("create", "data", active + 1) /\ RollStep
SysMergeCreateData == wr.pc = "m.create_data" /\ IsCall("create", "data", wr.out) /\ MergeCreateData
SysMergeCreateHint == wr.pc = "m.create_hint" /\ IsCall("create", "hint", wr.out) /\ MergeCreateHint
SysMergeHint ==
    /\ wr.pc = "m.hint" /\ IsCall("write", "hint", wr.out) /\ E.n = HWrites(wr.k)[wr.ci] /\ MergeHint
SysMergeSyncData == wr.pc \in {"m.roll_sync_data", "m.sync_data"} /\ IsCall("fsync", "data", wr.out) /\ MergeSyncData
SysMergeSyncHint == wr.pc \in {"m.roll_sync_hint", "m.sync_hint"} /\ IsCall("fsync", "hint", wr.out) /\ MergeSyncHint
SysMergeUnlinkHint == wr.pc = "m.unlink" /\ wr.unl # {} /\ IsCall("unlink", "hint", NextUnlink) /\ MergeUnlinkHint
SysMergeUnlinkData == wr.pc = "m.unlink_data" /\ IsCall("unlink", "data", NextUnlink) /\ E.res >= 0 /\ MergeUnlinkData
SysMergeNewActive == wr.pc = "m.unlink" /\ wr.unl = {} /\ IsCall("create", "data", wr.out + 1) /\ MergeNewActive

\* a write into the merge output: a piece of the copy of some record (io::copy hands the record to the
\* output's BufWriter in pieces of at most BufCap bytes).  Which key the DashMap iterator yielded is
\* inferred: TLC branches over the keys still to be moved whose record starts with a piece of that size.
SysMergeCopyFirst ==
    /\ wr.pc = "m.loop" /\ IsCall("write", "data", wr.out)
    /\ \E k \in MergeTodo : E.n = Chunks(keydir[k].len)[1] /\ MergeCopy(k)
SysMergeCopyMore ==
    /\ wr.pc = "m.copy" /\ IsCall("write", "data", wr.out) /\ E.n = Chunks(keydir[wr.k].len)[wr.ci] /\ MergeCopyMore

\* -- the failed call and the calls of the error paths (BitcaskFault.tla) --
FaultSys ==
    \/ (wr.pc = "append" /\ IsFailed("write", "data", active) /\ FailAppend)
    \* a SHORT write of an append (half of the bytes reach the file), then the failing retry of the rest
    \/ (wr.pc = "append" /\ Injected(E) /\ E.call = "write" /\ E.kind = "data" /\ E.id = active /\ E.res >= 0
           /\ E.n = wr.calls[wr.ci] /\ E.res = wr.calls[wr.ci] \div 2 /\ FailAppendShort)
    \/ (wr.pc = "f.newactive" /\ Injected(E) /\ E.call = "write" /\ E.kind = "data" /\ E.id = wr.old /\ E.res < 0 /\ UNCHANGED fvars)
    \* a SHORT write inside a merge (a piece of a copy, a hint entry): the half that reaches the output changes nothing
    \* the model looks at - the failing retry of the rest is the FailMerge step, and the rest lands when the output's
    \* writers are dropped, as after a write that failed entirely
    \/ (wr.pc \in {"m.loop", "m.hint"} /\ Injected(E) /\ E.call = "write" /\ E.id = wr.out /\ E.res >= 0 /\ UNCHANGED fvars)
    \/ (wr.pc = "sync" /\ IsFailed("fsync", "data", active) /\ FailSync)
    \/ (wr.pc = "roll" /\ IsFailed("create", "data", active + 1) /\ FailRoll)
    \/ (wr.pc = "f.newactive" /\ IsCall("create", "data", active + 1) /\ FNewActive)
    \/ (wr.pc = "f.dropflush" /\ IsCall("write", "data", wr.old) /\ E.n = wr.retained /\ FDropFlush)
    \* a failing call inside a merge: it must be the call the merge is about to issue
    \/ /\ \/ (wr.pc = "m.create_data" /\ IsFailed("create", "data", wr.out))
          \/ (wr.pc = "m.create_hint" /\ IsFailed("create", "hint", wr.out))
          \/ (wr.pc \in {"m.loop", "m.copy"} /\ IsFailed("write", "data", wr.out))
          \/ (wr.pc = "m.hint" /\ IsFailed("write", "hint", wr.out))
          \/ (wr.pc \in {"m.roll_sync_data", "m.sync_data"} /\ IsFailed("fsync", "data", wr.out))
          \/ (wr.pc \in {"m.roll_sync_hint", "m.sync_hint"} /\ IsFailed("fsync", "hint", wr.out))
          \/ (wr.pc = "m.unlink" /\ wr.unl # {} /\ IsFailed("unlink", "hint", NextUnlink))
          \/ (wr.pc = "m.unlink_data" /\ IsFailed("unlink", "data", NextUnlink))
       /\ FailMerge
    \/ (wr.pc = "m.unlink" /\ wr.unl = {} /\ IsFailed("create", "data", wr.out + 1) /\ FailMergeNewActive)
    \* the leftover of a failed merge is forced to disk first (or that fsync fails)
    \/ (wr.pc = "m.sync_leftover" /\ IsCall("fsync", "data", mghost.leftover) /\ FSyncLeftover /\ NoFaultChange)
    \/ (wr.pc = "m.sync_leftover" /\ IsFailed("fsync", "data", mghost.leftover) /\ FailSyncLeftover)
    \* the retained copy / hint entry landing when the output's writers are dropped: already part of FailMerge
    \/ /\ wr.pc = "fm.unlinkhint" /\ Mutating(E) /\ ~Injected(E) /\ E.call = "write" /\ E.id = wr.out
       /\ UNCHANGED fvars
    \/ (wr.pc = "fm.unlinkhint" /\ Mutating(E) /\ ~Injected(E) /\ E.call = "unlink" /\ E.kind = "hint" /\ E.id = wr.out /\ FMergeUnlinkHint)
    \/ (wr.pc = "fm.newactive" /\ IsCall("create", "data", wr.out + 1) /\ FMergeNewActive)
    \* open: the create fails, open returns the error
    \/ /\ wr.pc = "opening" /\ Injected(E) /\ E.call = "create"
       /\ wr' = [pc |-> "openfailed"] /\ nfault' = nfault + 1
       /\ UNCHANGED <<cfg, data, hint, dsync, hsync, keydir, stats, active, written, model, everIds, nops, ncrash, mghost, allowed>>

SysStep ==
    /\ l <= N /\ Mutating(E)
    /\ \/ SysOpenCreate
       \/ ((SysAppend \/ SysSync \/ SysRoll \/ SysMergeCreateData \/ SysMergeCreateHint \/ SysMergeCopyFirst \/ SysMergeCopyMore
             \/ SysMergeHint \/ SysMergeSyncData \/ SysMergeSyncHint \/ SysMergeUnlinkHint \/ SysMergeUnlinkData
             \/ SysMergeNewActive) /\ NoFaultChange)
       \/ FaultSys
    /\ Consume

\* steps without a system call
Silent ==
    /\ \/ ((AccountStep \/ MergeRepoint \/ MergeLoopEnd) /\ NoFaultChange)
       \/ FPublish
       \/ FRet
    /\ UNCHANGED l

-----------------------------------------------------------------------------------------
(* ret: the specification is idle and its state equals the recorded real state *)
KeydirOf(seq) ==
    [k \in Keys |-> LET idx == {i \in 1..Len(seq) : seq[i].k = k}
                    IN IF idx = {} THEN NoKE ELSE LET e == seq[CHOOSE i \in idx : TRUE] IN KE(e.fid, e.pos, e.len)]
StatsOf(seq) ==
    [f \in {seq[i].f : i \in 1..Len(seq)} |->
        LET s == seq[CHOOSE i \in 1..Len(seq) : seq[i].f = f] IN [live |-> s.live, dead |-> s.dead, dbytes |-> s.dbytes]]
DataOf(seq) ==
    [id \in {seq[i].id : i \in 1..Len(seq)} |->
        LET d == seq[CHOOSE i \in 1..Len(seq) : seq[i].id = id]
        IN [ents |-> [j \in 1..Len(d.ents) |-> [k |-> d.ents[j].k, v |-> d.ents[j].v]], torn |-> d.torn]]
HintOf(seq) ==
    [id \in {seq[i].id : i \in 1..Len(seq)} |->
        LET d == seq[CHOOSE i \in 1..Len(seq) : seq[i].id = id]
        IN [ents |-> [j \in 1..Len(d.ents) |-> [k |-> d.ents[j].k, pos |-> d.ents[j].pos, len |-> d.ents[j].len]], torn |-> d.torn]]

StateMatches(st) ==
    /\ keydir = KeydirOf(st.keydir)
    /\ stats = StatsOf(st.stats)
    /\ active = st.active /\ written = st.written
    /\ data = DataOf(st.data)
    /\ hint = HintOf(st.hint)

RetEv ==
    /\ l <= N /\ E.ev = "ret"
    /\ wr \in {Idle, [pc |-> "openfailed"]}
    /\ (Has(E, "st") => StateMatches(E.st))
    /\ (Has(E, "gets") => \A k \in Keys : E.gets[k] = ReadKey(keydir, data, k))
    /\ Consume /\ UNCHANGED fvars

TNext == Skip \/ CrashProbe \/ ResetEv \/ InvEv \/ SysStep \/ Silent \/ RetEv
TSpec == TInit /\ [][TNext]_tvars

Accepted ==
    IF TLCGet(1) = N + 1 THEN TRUE
    ELSE Print(<<"MECHANISM DRIFT: first event no behaviour of Bitcask.tla explains: line", TLCGet(1),
                 IF TLCGet(1) <= N THEN Rec[TLCGet(1)] ELSE "-">>, FALSE)
=====================================================================================
