---------------------------------- MODULE TraceLife ----------------------------------
(***************************************************************************************)
(* Implementation -> specification, MECHANISM level, for the life cycle of a store: is    *)
(* the recorded order of background hook points and driver marks a behaviour of           *)
(* Lifecycle.tla?                                                                        *)
(*                                                                                     *)
(* Input (IOEnv.TRACE): one record per scenario of sysdrive's `close` / `bg` modes with   *)
(* `life`: the ordered log of                                                            *)
(*   bg.merge.woke | bg.merge.triggered | merge.selected | bg.sync.woke | bg.exit          *)
(*   drv.drop (the driver is about to drop the store) | drv.dropped (the drop returned)    *)
(* All scenarios of one file share the configuration (Policy, S > 0 or not): the constants *)
(* of the run.  The order is validated, not the times (I = S = 1 tick, the clock is        *)
(* advanced by silent Tick steps as the timers need it; the deadlines are judged on the    *)
(* measured times by TraceSys.tla).  Each hook event must be explained by the action of     *)
(* Lifecycle.tla at whose code position the hook sits; the steps without a hook (a check    *)
(* that finds nothing to merge, a refused merge or sync, the end of a merge, the two steps  *)
(* of the drop, a task seeing the shutdown, the trigger state changing) are silent.  TLC    *)
(* searches depth-first; a rejection is model drift, not an alarm.                        *)
(***************************************************************************************)
EXTENDS Lifecycle, Json, IOUtils, Sequences

VARIABLES l,         \* the scenario (line of the trace file)
          i,         \* next event of its timeline
          dropping   \* "no" | "started" (between drv.drop and drv.dropped) | "done"
tvars == <<vars, l, i, dropping>>

Rec == ndJsonDeserialize(IOEnv.TRACE)
N == Len(Rec)
TL == Rec[l].life
ASSUME TLCSet(1, 1) /\ TLCSet(2, 1)

TInit == Init /\ l = 1 /\ i = 1 /\ dropping = "no"

Consume == i' = i + 1 /\ l' = l /\ TLCSet(2, IF l = TLCGet(1) /\ i + 1 > TLCGet(2) THEN i + 1 ELSE TLCGet(2))
Ev(name) == l <= N /\ i <= Len(TL) /\ TL[i].name = name

EvMergeWoke == Ev("bg.merge.woke") /\ MergeTimer /\ Consume /\ UNCHANGED dropping
EvMergeTriggered == Ev("bg.merge.triggered") /\ MergeCheck /\ mt'.st = "triggered" /\ Consume /\ UNCHANGED dropping
\* (merge.selected sits after the closed check and the file selection of a merge that really runs)
EvMergeSelected == Ev("merge.selected") /\ MergeStart /\ mt'.st = "busy" /\ Consume /\ UNCHANGED dropping
EvSyncWoke == Ev("bg.sync.woke") /\ SyncTimer /\ Consume /\ UNCHANGED dropping
EvExit == Ev("bg.exit") /\ BgExit /\ Consume /\ UNCHANGED dropping
EvDrop == Ev("drv.drop") /\ dropping = "no" /\ dropping' = "started" /\ Consume /\ UNCHANGED vars
EvDropped == Ev("drv.dropped") /\ ~open /\ ~sender /\ dropping' = "done" /\ Consume /\ UNCHANGED vars

Silent ==
    /\ l <= N /\ UNCHANGED <<l, i>>
    /\ \/ (Tick /\ UNCHANGED dropping)
       \/ (EnvTrigger /\ UNCHANGED dropping)
       \/ (MergeCheck /\ mt'.st = "sleep" /\ UNCHANGED dropping)
       \/ (MergeStart /\ mt'.st = "sleep" /\ UNCHANGED dropping)
       \/ (MergeDone /\ UNCHANGED dropping)
       \/ (MergeFails /\ UNCHANGED dropping)
       \/ (SyncRun /\ UNCHANGED dropping)
       \/ (MergeSeesShutdown /\ UNCHANGED dropping)
       \/ (SyncSeesShutdown /\ UNCHANGED dropping)
       \/ (dropping = "started" /\ (DropStore \/ DropWaitsForWriter \/ DropSender) /\ UNCHANGED dropping)

\* next scenario: a fresh store
NextScenario ==
    /\ l <= N /\ i = Len(TL) + 1
    /\ l' = l + 1 /\ i' = 1 /\ dropping' = "no"
    /\ (IF l + 1 > TLCGet(1) THEN TLCSet(1, l + 1) /\ TLCSet(2, 1) ELSE TRUE)
    /\ now' = 0 /\ open' = TRUE /\ closed' = FALSE /\ sender' = TRUE
    /\ mt' \in (IF Policy = "never" THEN {Done} ELSE {[st |-> "sleep", wake |-> d, from |-> 0] : d \in (I - J)..(I + J)})
    /\ stt' = IF S = 0 THEN Done ELSE [st |-> "sleep", wake |-> S, from |-> 0]
    /\ exited' = FALSE /\ trig' = FALSE /\ crossed' = -1 /\ merges' = 0 /\ spurious' = FALSE
    /\ lastSync' = 0 /\ effects' = 0 /\ lateWork' = 0 /\ dropTime' = -1 /\ waited' = FALSE /\ lastEnd' = 0

TNext == EvMergeWoke \/ EvMergeTriggered \/ EvMergeSelected \/ EvSyncWoke \/ EvExit \/ EvDrop \/ EvDropped
         \/ Silent \/ NextScenario
TSpec == TInit /\ [][TNext]_tvars

\* the design-level invariants of Lifecycle.tla are evaluated in every state of the explanation as well
Accepted ==
    IF TLCGet(1) = N + 1 THEN TRUE
    ELSE Print(<<"LIFECYCLE MECHANISM DRIFT: scenario at line", TLCGet(1), "is not a behaviour of Lifecycle.tla; furthest event", TLCGet(2),
                 IF TLCGet(1) <= N /\ TLCGet(2) <= Len(Rec[TLCGet(1)].life) THEN Rec[TLCGet(1)].life[TLCGet(2)] ELSE "-">>, FALSE)
=======================================================================================
