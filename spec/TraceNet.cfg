SPECIFICATION Spec
INVARIANTS C06_RepliesAsTheMap C10_HostileIsLocal C15_ConnectionLimit C16_GracefulShutdown
POSTCONDITION Accepted
ALIAS ErrAlias
CHECK_DEADLOCK FALSE
