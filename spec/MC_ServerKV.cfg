SPECIFICATION Spec
CONSTANTS
  Conns = {"c1", "c2"}
  MaxConn = 1
  Keys = {"k"}
  Vals = {"a", "b"}
  MaxReq = 2
  Hostile = {"c2"}
INVARIANTS TypeOK ServingAtMostMax PermitConservation RepliesInOrder RepliedImpliesApplied NoTornReply StoreIsAppliedCommands ErrorIsLocal
PROPERTY ShutdownTerminates
CHECK_DEADLOCK FALSE
