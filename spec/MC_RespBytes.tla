------------------------------- MODULE MC_RespBytes -------------------------------
(***************************************************************************************)
(* Every byte string over Alphabet up to MaxLen that is reachable by appending one      *)
(* byte while the completeness check says "incomplete" (so every truncation point of   *)
(* every message in scope is a state).  TLC checks the decoder properties in every      *)
(* state and prints the outcome the specification predicts for the harness to replay.  *)
(***************************************************************************************)
EXTENDS Resp, Json

CONSTANTS Alphabet, MaxLen, EmitOn
VARIABLE buf

Init == buf = <<>>
Next == /\ Len(buf) < MaxLen
        /\ Check(buf, 0, 0).kind = "inc"
        /\ \E b \in Alphabet : buf' = Append(buf, b)
Spec == Init /\ [][Next]_buf

C == Check(buf, 0, 0)
P == Parse(buf, 0, 0)

\* C07: when the check accepts n bytes, parse does not succeed with a different length
CheckParseAgree == (C.kind = "ok" /\ P.kind = "ok") => P.next = C.next
\* and a successful parse is always something the check accepts with the same length
ParseImpliesCheck == P.kind = "ok" => (C.kind = "ok" /\ C.next = P.next)
\* a buffer the check calls incomplete never parses, and never fails for good in the check
\* once more bytes can still complete it (prefix-closedness is the shape of Next itself)
IncompleteNeverParses == C.kind = "inc" => P.kind # "ok"
\* the outcome does not depend on where in the buffer the frame starts (numbers at any offset)
Pads == {<<0>>, <<CR>>, <<49, 50>>, <<Star, 49, CR, LF>>}
Shift(r, n) == IF r.kind = "ok" THEN [r EXCEPT !.next = @ + n] ELSE r
PositionIndependent ==
    \A pad \in Pads : /\ Check(pad \o buf, Len(pad), 0) = Shift(C, Len(pad))
                      /\ Parse(pad \o buf, Len(pad), 0) = Shift(P, Len(pad))
\* an accepted integer has exactly the value written (canonical digits), within i64
IntegerExact ==
    (P.kind = "ok" /\ P.frame.t = "int") =>
        LET v == P.frame.v
            body == SubSeq(buf, 2, P.next - 2)
            neg == body[1] = Minus
            ds == IF body[1] = Minus \/ body[1] = Plus THEN Tail(body) ELSE body
        IN /\ \A i \in 1..Len(ds) : IsDigit(ds[i])
           /\ v = Canon(neg, ds) /\ InRange(neg, ds)
\* wrapping in an array header changes the outcome only by wrapping
NestUniform ==
    LET hdr == <<Star, 49, CR, LF>>
        w == Parse(hdr \o buf, 0, 0)
    IN CASE P.kind = "ok" -> w = OkF(P.next + 4, [t |-> "array", items |-> <<P.frame>>])
         [] P.kind = "inc" -> w.kind = "inc"
         [] OTHER -> w.kind = "err" /\ w.class = P.class

Emit == EmitOn => PrintT(<<"RESP", ToJson([buf |-> buf, check |-> C, parse |-> P])>>)
====================================================================================
