SPECIFICATION Spec
INVARIANTS C07_ParserTotalAndExact C08_RoundTrip
POSTCONDITION Accepted
ALIAS ErrAlias
CHECK_DEADLOCK FALSE
