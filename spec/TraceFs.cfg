SPECIFICATION Spec
INVARIANTS C01_NoFailureWithoutFault C03_CrashSafe C09_PowerLossSafe C14_FsDiscipline C20_FaultContained
POSTCONDITION Accepted
ALIAS ErrAlias
CHECK_DEADLOCK FALSE
