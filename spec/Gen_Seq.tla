------------------------------- MODULE Gen_Seq -------------------------------
(***************************************************************************************)
(* Specification -> implementation: the bounded instance of Bitcask.tla with a history *)
(* variable.  Every behaviour of the client (operation sequence with the configuration *)
(* chosen at Init) is printed as one JSON line once MaxOps operations have completed;  *)
(* the harness replays each of them against the real store.  The history records an    *)
(* operation when it RETURNS, together with the result and abstract map the            *)
(* specification predicts.                                                             *)
(***************************************************************************************)
EXTENDS MC_Seq, Json

VARIABLE hist
gvars == <<vars, hist>>

Done(op) == hist' = Append(hist, op)

GInit == Init /\ hist = <<>>

GNext ==
    \/ ("put" \in Ops /\ \E k \in Keys, v \in Vals : StartWrite(k, v)) /\ UNCHANGED hist
    \/ ("del" \in Ops /\ \E k \in Keys : StartWrite(k, Tomb)) /\ UNCHANGED hist
    \/ ("merge" \in Ops /\ StartMerge) /\ UNCHANGED hist
    \/ ("reopen" \in Ops /\ Reopen) /\ Done([op |-> "reopen", exp |-> model])
    \/ (AppendStep \/ SyncStep \/ AccountStep \/ RollStep) /\ UNCHANGED hist
    \/ PublishStep /\ Done(IF wr.op = "put"
                             THEN [op |-> "put", k |-> wr.k, v |-> wr.v, res |-> "ok", exp |-> model']
                             ELSE [op |-> "del", k |-> wr.k,
                                   res |-> IF keydir[wr.k] # NoKE THEN "true" ELSE "false", exp |-> model'])
    \/ MergeNewActive /\ Done([op |-> "merge", exp |-> model])
    \/ (MergeCreateData \/ MergeCreateHint \/ (\E k \in Keys : MergeCopy(k)) \/ MergeCopyMore \/ MergeRepoint
          \/ MergeHint \/ MergeSyncData \/ MergeSyncHint \/ MergeLoopEnd \/ MergeUnlinkHint
          \/ MergeUnlinkData) /\ UNCHANGED hist

GSpec == GInit /\ [][GNext]_gvars

\* the interesting events a behaviour went through, for the coverage statistics
Emit ==
    (nops = MaxOps /\ wr = Idle) =>
        PrintT(<<"BEHAVIOUR", ToJson([cfg |-> cfg, ops |-> hist,
                                      nfiles |-> Cardinality(everIds), nhints |-> Cardinality(DOMAIN hint)])>>)

\* merge orders multiply states without adding client behaviours: the generator hides the
\* variables that only depend on the order (file contents are compared as multisets)
==============================================================================
