------------------------------- MODULE Gen_Seq -------------------------------
(***************************************************************************************)
(* Specification -> implementation: the bounded instance of Bitcask.tla with a history *)
(* variable.  Every behaviour of the client (operation sequence with the configuration *)
(* chosen at Init) is printed as one JSON line once MaxOps operations have completed;  *)
(* the harness replays each of them against the real store.  The history records an    *)
(* operation when it RETURNS, together with the result and abstract map the            *)
(* specification predicts.                                                             *)
(***************************************************************************************)
EXTENDS MC_Seq, Json

\* WantTags: {} = print every behaviour; otherwise only the behaviours that went through one of these situations
\* (the specification's own state decides what is interesting: guided generation for deeper instances)
CONSTANT WantTags

VARIABLES hist, tags
gvars == <<vars, hist, tags>>

Done(op) == hist' = Append(hist, op)

GInit == Init /\ hist = <<>> /\ tags = {}

\* situations of the merge selection, evaluated when a merge starts
ByCounters(f) == stats[f].dbytes > cfg.thDead \/ FragAbove(stats[f], cfg.thFragNum, cfg.thFragDen)
MergeTags ==
    LET el == {f \in DOMAIN stats : Eligible(f)} IN
    (IF el # {} /\ Selected # el THEN {"closure"} ELSE {})                          \* an older file is taken only because a newer one is
    \cup (IF el # {} /\ Selected # el /\ ~ByCounters(Max(el)) THEN {"closure-small"} ELSE {})   \* ... and that newer one only for its size
    \cup (IF Selected # {} /\ \E f \in DOMAIN data \ Selected : Len(data[f].ents) > 0 THEN {"partial"} ELSE {})
    \cup (IF Selected # {} /\ \A k \in Keys : keydir[k] = NoKE \/ keydir[k].fid \notin Selected THEN {"nothing-to-copy"} ELSE {})
Tag(s) == tags' = tags \cup s

GNext ==
    \/ ("put" \in Ops /\ \E k \in Keys, v \in Vals : StartWrite(k, v)) /\ UNCHANGED <<hist, tags>>
    \/ ("del" \in Ops /\ \E k \in Keys : StartWrite(k, Tomb)) /\ UNCHANGED <<hist, tags>>
    \/ ("merge" \in Ops /\ StartMerge) /\ UNCHANGED hist /\ Tag(MergeTags)
    \/ ("reopen" \in Ops /\ Reopen) /\ Done([op |-> "reopen", exp |-> model]) /\ UNCHANGED tags
    \/ (AppendStep \/ SyncStep \/ RollStep) /\ UNCHANGED <<hist, tags>>
    \/ AccountStep /\ UNCHANGED hist
          /\ Tag(IF wr.v = Tomb /\ written + ESize(wr.k, wr.v) > cfg.maxFile THEN {"tombstone-rolls"} ELSE {})
    \/ PublishStep /\ UNCHANGED tags /\ Done(IF wr.op = "put"
                             THEN [op |-> "put", k |-> wr.k, v |-> wr.v, res |-> "ok", exp |-> model']
                             ELSE [op |-> "del", k |-> wr.k,
                                   res |-> IF keydir[wr.k] # NoKE THEN "true" ELSE "false", exp |-> model'])
    \/ MergeNewActive /\ Done([op |-> "merge", exp |-> model])
          /\ Tag((IF wr.out > wr.first THEN {"output-rolled"} ELSE {})
                 \cup (IF wr.out > wr.first /\ data[wr.out].ents = <<>> THEN {"empty-last-output"} ELSE {}))
    \/ (MergeCreateData \/ MergeCreateHint \/ (\E k \in Keys : MergeCopy(k)) \/ MergeCopyMore \/ MergeRepoint
          \/ MergeHint \/ MergeSyncData \/ MergeSyncHint \/ MergeLoopEnd \/ MergeUnlinkHint
          \/ MergeUnlinkData) /\ UNCHANGED <<hist, tags>>

GSpec == GInit /\ [][GNext]_gvars

\* the interesting events a behaviour went through, for the coverage statistics
Emit ==
    (nops = MaxOps /\ wr = Idle /\ (WantTags = {} \/ tags \cap WantTags # {})) =>
        PrintT(<<"BEHAVIOUR", ToJson([cfg |-> cfg, ops |-> hist, tags |-> tags,
                                      nfiles |-> Cardinality(everIds), nhints |-> Cardinality(DOMAIN hint)])>>)

\* merge orders multiply states without adding client behaviours: the generator hides the
\* variables that only depend on the order (file contents are compared as multisets)
==============================================================================
