SPECIFICATION Spec
CONSTANTS
  MaxFrames = 2
  EmitOn = FALSE
INVARIANTS AllWritableClean RoundTrip ChunkingIndependent PrefixIsIncomplete EofInsideFrameIsError Emit
CHECK_DEADLOCK FALSE
