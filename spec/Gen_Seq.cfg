SPECIFICATION GSpec
CONSTANTS
  Keys = {"k1", "k2"}
  Vals = {"v0", "v1"}
  KLen <- MCKLen
  VLen <- MCVLen
  Configs <- MCConfigs
  MaxOps = 3
  MaxCrashes = 0
  Ops = {"put", "del", "merge", "reopen"}
  Deviations = {}
CONSTRAINT OpsBound
INVARIANT Emit
CHECK_DEADLOCK FALSE
