SPECIFICATION Spec
INVARIANTS C04_ForcedSchedules C17_ClosedStore C18_BackgroundPolicy
POSTCONDITION Accepted
ALIAS ErrAlias
CHECK_DEADLOCK FALSE
