---------------------------------- MODULE TraceNet ----------------------------------
(***************************************************************************************)
(* Implementation -> specification for the network server (C06 C10 C15 C16).            *)
(*                                                                                     *)
(* Input (IOEnv.TRACE): one event per scenario played by netdrive against the REAL      *)
(* server over TCP:                                                                     *)
(*   kv        reqs how recv ending store      a request sequence on one connection     *)
(*             under a delivery discipline (one by one / pipelined / byte per segment / *)
(*             cut at a position); recv = every byte the client received                *)
(*   hostile   stream control fresh_ok store   arbitrary bytes on one connection while  *)
(*             a control connection stores and reads values                             *)
(*   limit     max endings steps hooks         the connection-limit script: fill the    *)
(*             slots, an extra client must wait, a served one ends in a given way, the  *)
(*             extra one is served, one more must wait again; permits from the hooks    *)
(*   shutdown  states returned clients store   the signal fires with one client per     *)
(*             state; every client drains its socket                                    *)
(*                                                                                     *)
(* Expected replies are computed from the abstract map (the Reply/Apply of Server.tla   *)
(* over byte keys) and encoded with Resp!Encode, so C06 compares BYTES.                 *)
(***************************************************************************************)
EXTENDS Resp, Json, IOUtils

Rec == ndJsonDeserialize(IOEnv.TRACE)
Has(r, f) == f \in DOMAIN r

VARIABLES l, bad
vars == <<l, bad>>
V(p, why) == [p |-> p, why |-> why]
OK == V("", "")

-----------------------------------------------------------------------------------------
(* The abstract map over byte-sequence keys, as an association list <<key, value>> *)
RECURSIVE Lookup(_, _), Remove(_, _)
Lookup(m, k) == IF m = <<>> THEN <<"none">> ELSE IF Head(m)[1] = k THEN <<"some", Head(m)[2]>> ELSE Lookup(Tail(m), k)
Remove(m, k) == IF m = <<>> THEN <<>> ELSE IF Head(m)[1] = k THEN Tail(m) ELSE <<Head(m)>> \o Remove(Tail(m), k)
Put(m, k, v) == <<<<k, v>>>> \o Remove(m, k)

\* DEL counts each named key as it is deleted in turn (a repeated key counts once)
RECURSIVE DelAll(_, _, _)
DelAll(m, ks, n) ==
    IF ks = <<>> THEN <<m, n>>
    ELSE IF Lookup(m, Head(ks))[1] = "some" THEN DelAll(Remove(m, Head(ks)), Tail(ks), n + 1)
    ELSE DelAll(m, Tail(ks), n)

BulkF(b) == [t |-> "bulk", b |-> b]
IntF(n) == [t |-> "int", v |-> [neg |-> FALSE, digits |-> NatDigits(n)]]
OkF0 == [t |-> "simple", s |-> <<79, 75>>]
NullF == [t |-> "null"]

\* run a request sequence: the final map and the reply bytes
RECURSIVE Run(_, _, _)
Run(m, reqs, acc) ==
    IF reqs = <<>> THEN <<m, acc>>
    ELSE LET r == Head(reqs) IN
         CASE r.op = "set" -> Run(Put(m, r.k, r.v), Tail(reqs), acc \o Encode(OkF0))
           [] r.op = "get" -> LET x == Lookup(m, r.k)
                              IN Run(m, Tail(reqs), acc \o Encode(IF x[1] = "some" THEN BulkF(x[2]) ELSE NullF))
           [] r.op = "del" -> LET d == DelAll(m, r.ks, 0) IN Run(d[1], Tail(reqs), acc \o Encode(IntF(d[2])))

StoreMatches(store, m) ==
    \A i \in 1..Len(store) :
        LET x == Lookup(m, store[i].k)
        IN IF x[1] = "some" THEN Has(store[i], "v") /\ store[i].v = x[2]
           ELSE ~Has(store[i], "err") /\ ~Has(store[i], "v")

\* (how = "client": the requests went through the repository's own client library, net::Client, and its
\* results were written back in the reply encoding; no listed property is about the client, so a
\* difference seen only there is reported as drift of the client, not as a violation)
KvVerdict0(r) ==
    LET res == Run(<<>>, r.reqs, <<>>) IN
    IF r.ending = "abort" THEN V("C06", "the server process died or hung")
    ELSE IF r.recv # res[2]
           THEN V("C06", "replies differ from the map model (" \o r.how \o ", the client's stream ended with " \o r.ending \o ")")
    ELSE IF r.ending # "ok" THEN V("C06", "the replies did not arrive: " \o r.ending \o " (" \o r.how \o ")")
    ELSE IF ~StoreMatches(r.store, res[1]) THEN V("C06", "the store does not hold what the acknowledged commands wrote")
    ELSE OK
KvVerdict(r) ==
    LET v == KvVerdict0(r)
    IN IF r.how = "client" /\ v # OK /\ r.ending # "abort" THEN V("drift", "through net::Client: " \o v.why) ELSE v

-----------------------------------------------------------------------------------------
(* C10 *)
\* does the hostile stream start with a frame that is a well-formed command?  (then it may
\* legitimately change the store and the scenario is not judged on the store)
\* (Redis matches command names without regard to case; the property does not say either way, so a stream
\* whose verb differs from SET/GET/DEL only in case counts as "may be a command")
Upper(b) == IF b >= 97 /\ b <= 122 THEN b - 32 ELSE b
IsCommand(f) ==
    /\ f.t = "array" /\ Len(f.items) >= 2 /\ \A i \in 1..Len(f.items) : f.items[i].t = "bulk"
    \* (keys must be UTF-8: a DEL that names a key the server must refuse is not a command, and none of the keys it
    \* names before that one may be deleted; ValidUtf8 is Resp.tla's in-scope approximation "all bytes < 128")
    /\ LET verb == [i \in 1..Len(f.items[1].b) |-> Upper(f.items[1].b[i])] n == Len(f.items) IN
         \/ (verb = <<83, 69, 84>> /\ n = 3 /\ ValidUtf8(f.items[2].b))
         \/ (verb = <<71, 69, 84>> /\ n = 2 /\ ValidUtf8(f.items[2].b))
         \/ (verb = <<68, 69, 76>> /\ \A i \in 2..n : ValidUtf8(f.items[i].b))
HasCommand(stream) ==
    LET d == Drain(stream, <<>>) IN \E i \in 1..Len(d.frames) : IsCommand(d.frames[i])

HostileVerdict(r) ==
    LET okb == Encode(OkF0) IN
    IF Has(r, "abort") THEN V("C10", "the server process died or hung on a hostile stream (" \o r.tag \o ")")
    ELSE IF \E i \in 1..Len(r.control) : r.control[i].ending # "ok"
           THEN V("C10", "the control connection was disturbed by a hostile stream (" \o r.tag \o ")")
    \* (a stream that contains a command the decoder accepts may legitimately change `victim`)
    ELSE IF r.control[1].reply # okb \/ r.control[2].reply # okb \/ r.control[3].reply # Encode(BulkF(r.cv))
              \/ (r.len <= 300 /\ ~HasCommand(r.stream) /\ r.control[4].reply # Encode(BulkF(<<107, 101, 101, 112>>)))
           THEN V("C10", "the control connection got wrong answers while a hostile stream was sent (" \o r.tag \o ")")
    ELSE IF ~r.fresh_ok THEN V("C10", "a new connection is no longer served after a hostile stream (" \o r.tag \o ")")
    ELSE IF Has(r, "capacity_ok") /\ ~r.capacity_ok
           THEN V("C10", "after a hostile stream the server no longer serves its full number of connections: the stream cost it a slot (" \o r.tag \o ")")
    ELSE IF r.len <= 300 /\ ~HasCommand(r.stream) /\
              ~StoreMatches(r.store, <<<<r.ck, r.cv>>, <<<<118, 105, 99, 116, 105, 109>>, <<107, 101, 101, 112>>>>>>)
           THEN V("C10", "stored data changed through a request that is not a well-formed command (" \o r.tag \o ")")
    ELSE OK

-----------------------------------------------------------------------------------------
(* C15 *)
RECURSIVE Serving(_, _, _)
\* the largest number of connections being served at once according to the permit hooks
Serving(hooks, cur, mx) ==
    IF hooks = <<>> THEN mx
    ELSE LET e == Head(hooks)
             c == IF e.name = "srv.accepted" THEN cur + 1 ELSE IF e.name = "srv.handler_drop" THEN cur - 1 ELSE cur
         IN Serving(Tail(hooks), c, IF c > mx THEN c ELSE mx)

StepVerdict(r, s) ==
    CASE s.step = "fill" /\ ~s.served -> V("C15", "a client within the limit is not served")
      [] s.step = "extra-while-full" /\ s.served -> V("C15", "more connections than max_connections are served at once")
      [] s.step = "extra-after-free" /\ ~s.served ->
            V("C15", "the slot of a connection that ended by '" \o s.ending \o "' was not released: a waiting client is never served")
      [] s.step = "over-limit" /\ s.served ->
            V("C15", "after a connection ended by '" \o s.ending \o "' more than max_connections are served")
      [] s.step = "accept-failures-consumed" /\ s.left # 0 -> V("drift", "the injected accept failures were not consumed by the listener")
      [] s.step = "refill" /\ ~s.served -> V("C15", "after all connections ended the full number can no longer be served")
      [] s.step = "over-limit-final" /\ s.served -> V("C15", "the limit no longer holds after connections came and went")
      [] OTHER -> OK
RECURSIVE FirstStep(_, _, _)
FirstStep(r, steps, i) ==
    IF i > Len(steps) THEN OK
    ELSE LET v == StepVerdict(r, steps[i]) IN IF v # OK THEN v ELSE FirstStep(r, steps, i + 1)

LimitVerdict(r) ==
    IF Has(r, "abort") THEN V("C15", "the server process died or hung")
    ELSE LET v == FirstStep(r, r.steps, 1)
         IN IF v # OK THEN v
            ELSE IF Serving(r.hooks, 0, 0) > r.max THEN V("C15", "the permit events show more handlers alive than max_connections")
            ELSE IF \E i \in 1..Len(r.hooks) : Has(r.hooks[i], "available") /\ r.hooks[i].available > r.max
                   THEN V("C15", "more permits available than max_connections (a slot was released twice)")
            ELSE OK

-----------------------------------------------------------------------------------------
(* C16 *)
ClientVerdict(r, c, i) ==
    IF c.ended \notin {"eof", "reset"} THEN V("C16", "a client (" \o c.state \o ") never sees end-of-stream after shutdown")
    ELSE IF c.trailing # 0 THEN V("C16", "a client (" \o c.state \o ") received a torn reply before end-of-stream")
    ELSE IF c.acked_sets >= 1 /\ (~Has(r.store[i], "v") \/ r.store[i].v # <<97, 99, 107, 101, 100>>)
           THEN V("C16", "a command whose reply the client received is not reflected in the store")
    ELSE OK
RECURSIVE FirstClient(_, _)
FirstClient(r, i) ==
    IF i > Len(r.clients) THEN OK
    ELSE LET v == ClientVerdict(r, r.clients[i], i) IN IF v # OK THEN v ELSE FirstClient(r, i + 1)

\* handlers alive when Server::run returns, by the hook events (a handler is counted as gone from the
\* first statement of its Drop)
RECURSIVE AliveAtReturn(_, _)
AliveAtReturn(hooks, cur) ==
    IF hooks = <<>> THEN 0
    ELSE LET e == Head(hooks)
         IN IF e.name = "srv.run_return" THEN cur
            ELSE AliveAtReturn(Tail(hooks), IF e.name = "srv.accepted" THEN cur + 1
                                            ELSE IF e.name = "srv.handler_dropping" THEN cur - 1 ELSE cur)
ShutdownVerdict(r) ==
    IF Has(r, "abort") THEN V("C16", "the server process died or hung")
    ELSE IF ~r.returned THEN V("C16", "Server::run did not return within the bound after the shutdown signal")
    ELSE IF AliveAtReturn(r.hooks, 0) > 0 THEN V("C16", "Server::run returned while a connection was still being served")
    ELSE FirstClient(r, 1)

-----------------------------------------------------------------------------------------
\* deep pipelining of large values: every reply byte-exact (counted by the driver's splitter)
KvBulkVerdict(r) ==
    IF Has(r, "abort") THEN V("C06", "the server process died or hung")
    ELSE IF r.exact # r.depth
           THEN V("C06", "pipelined GETs of a large value are not answered byte for byte under back-pressure")
    ELSE OK

\* a request frame far above every buffer with more requests pipelined behind it
KvBigVerdict(r) ==
    IF Has(r, "abort") THEN V("C06", "the server process died or hung")
    ELSE IF r.exact # r.requests \/ r.received # r.expected
           THEN V("C06", "requests pipelined behind a large request are not answered one reply each, in order, byte for byte (" \o r.how \o ")")
    ELSE IF ~r.store_ok THEN V("C06", "after a large request and the requests pipelined behind it the store does not hold what was acknowledged")
    ELSE OK

Verdict(r) ==
    CASE r.ev = "kv" -> KvVerdict(r)
      [] r.ev = "kvbulk" -> KvBulkVerdict(r)
      [] r.ev = "kvbig" -> KvBigVerdict(r)
      [] r.ev = "hostile" -> HostileVerdict(r)
      [] r.ev = "limit" -> LimitVerdict(r)
      [] r.ev = "shutdown" -> ShutdownVerdict(r)
      [] OTHER -> OK

Init == l = 2 /\ bad = OK
\* a "drift" verdict is printed and is not an alarm
Next == /\ l <= Len(Rec) /\ l' = l + 1
        /\ LET v == Verdict(Rec[l])
           IN bad' = IF v.p = "drift" THEN (IF PrintT(<<"DRIFT", l, v.why>>) THEN OK ELSE OK) ELSE v
Spec == Init /\ [][Next]_vars

C06_RepliesAsTheMap == bad.p # "C06"
C10_HostileIsLocal == bad.p # "C10"
C15_ConnectionLimit == bad.p # "C15"
C16_GracefulShutdown == bad.p # "C16"

Accepted ==
    LET d == TLCGet("stats").diameter
    IN IF d = Len(Rec) THEN TRUE
       ELSE Print(<<"TRACE NOT ACCEPTED: consumed", d - 1, "of", Len(Rec) - 1>>, FALSE)
ErrAlias == [line |-> l - 1, why |-> bad.why]
=====================================================================================
