--------------------------------- MODULE Bitcask ---------------------------------
(***************************************************************************************)
(* The storage engine of letung3105/bitcask (src/storage/bitcask.rs, log.rs, bufio.rs, *)
(* utils.rs) as a state machine whose steps are the individual file-system calls the   *)
(* code issues plus the in-memory steps that are visible to other threads.             *)
(*                                                                                     *)
(* One writer thread (the holder of the writer mutex) executes put / delete / merge /  *)
(* reopen.  Every operation is split at each mutating system call:                     *)
(*   put/del : write(active)+ ; [fsync(active)] ; [create(active+1)] ; publish         *)
(*   merge   : create(data) ; create(hint) ; { write(data)+ ; repoint ; write(hint)+ ; *)
(*             [fsync fsync create create] }* ; fsync(data) ; fsync(hint) ;            *)
(*             { unlink(hint) ; unlink(data) }* ; create(active)                       *)
(*   open    : rebuild (read only) ; create(max+1)                                     *)
(* The environment can kill the process between any two steps (Crash) and, for the     *)
(* durability analysis, lose every byte that was not fsynced (the PowerLossSafe         *)
(* invariant quantifies over all such images).                                         *)
(*                                                                                     *)
(* Sizes are the real byte sizes of the bincode records so that rollover, merge        *)
(* selection and dead-byte accounting are decided on the same numbers as in the code.  *)
(***************************************************************************************)
EXTENDS Naturals, Integers, Sequences, FiniteSets, FiniteSetsExt, TLC

CONSTANTS
    Keys,        \* symbolic keys (strings)
    Vals,        \* symbolic values (strings), distinct from Tomb and None
    KLen,        \* [Keys -> Nat]  byte length of each key
    VLen,        \* [Vals -> Nat]  byte length of each value
    Configs,     \* set of configuration records, one is chosen at Init (see CfgOK)
    MaxOps,      \* bound on the number of client operations (state constraint)
    MaxCrashes,  \* bound on the number of crashes (0 disables the Crash action)
    Ops,         \* subset of {"put","del","merge","reopen"} offered to the client
    Deviations   \* named deviations from the code as delivered (defects that were repaired in
                 \* /repo; {} in every normal configuration, see DESIGN.md section 3):
                 \*   "RecoveryIgnoresTombstones"  D1   "MergeSelectsOnlyEligible"  D2
                 \*   "MergeNoSync"                D5a  "HintsTrustedBlindly"       D5b
                 \*   "HintFileUnknownToStats"     D8   "ScannedFileUnknownToStats" D9
                 \*   "UnlinkDescending"  (a seeded mutant, not a defect of the delivered tree)

Tomb == "T"       \* the value field of a tombstone entry
None == "none"    \* "no value": absent key in the abstract map
NoKE == [fid |-> -1, pos |-> 0, len |-> 0]   \* absent keydir entry (TLC cannot compare a record with a string)
NoEnt == [k |-> "none", v |-> "none"]        \* "no entry starts at this offset"
BufCap == 8192    \* capacity of std::io::BufWriter

ASSUME Tomb \notin Vals /\ None \notin Vals

VARIABLES
    cfg,      \* the configuration in force: [maxFile, sync, thFragNum, thFragDen, thDead, thSmall]
    data,     \* data files on disk:  [id -> [ents : Seq([k,v]), torn : Nat]]  (domain = existing ids)
    hint,     \* hint files on disk:  [id -> [ents : Seq([k,pos,len]), torn : Nat]]
    dsync,    \* [id -> Nat] number of entries of data file id known to be on stable storage
    hsync,    \* [id -> Nat] same for hint files
    keydir,   \* [Keys -> [fid,pos,len] \cup {NoKE}]
    stats,    \* [id -> [live, dead, dbytes]]   (partial: only files that got an entry)
    active,   \* id of the active data file
    written,  \* bytes written to the active file by this incarnation
    wr,       \* control state of the writer thread (record with field pc)
    model,    \* ghost: the acknowledged abstract map [Keys -> Vals \cup {None}]
    everIds,  \* ghost: every data-file id that ever existed in the directory
    nops,     \* ghost: number of client operations started
    ncrash,   \* ghost: number of crashes so far
    mghost    \* bookkeeping of merges: lastFull (ghost, for the size properties C13) and leftover, the
              \* writer's `unsynced_merge_fileid`: the output a failed merge left behind unsynced (-1 = none)

vars == <<cfg, data, hint, dsync, hsync, keydir, stats, active, written, wr, model,
          everIds, nops, ncrash, mghost>>

-----------------------------------------------------------------------------------------
(* Generic helpers *)

MaxOr(S, d) == IF S = {} THEN d ELSE Max(S)

RECURSIVE SumSeq(_)
SumSeq(s) == IF s = <<>> THEN 0 ELSE Head(s) + SumSeq(Tail(s))

SetSum(S, f(_)) == MapThenSumSet(f, S)

\* function f without the key x / with x mapped to v (partial functions on file ids)
Drop(f, x) == [y \in (DOMAIN f) \ {x} |-> f[y]]
With(f, x, v) == [y \in (DOMAIN f) \cup {x} |-> IF y = x THEN v ELSE f[y]]

-----------------------------------------------------------------------------------------
(* Byte sizes (bincode, fixed-int encoding): confirmed against real files by the harness *)

ESize(k, v) == IF v = Tomb THEN 17 + KLen[k] ELSE 25 + KLen[k] + VLen[v]
HSize(k)    == 32 + KLen[k]

\* the slices bincode hands to write_all for one record
EPieces(k, v) == IF v = Tomb THEN <<8, 8, KLen[k], 1>> ELSE <<8, 8, KLen[k], 1, 8, VLen[v]>>
HPieces(k)    == <<8, 8, 8, 8, KLen[k]>>

\* std::io::BufWriter::write_all for each piece followed by flush(): sizes of the write(2) calls
RECURSIVE BW(_, _)
BW(pieces, buffered) ==
    IF pieces = <<>> THEN (IF buffered > 0 THEN <<buffered>> ELSE <<>>)
    ELSE LET p     == Head(pieces)
             spare == BufCap - buffered
         IN IF p < spare THEN BW(Tail(pieces), buffered + p)
            ELSE LET fl  == p > spare
                     pre == IF fl /\ buffered > 0 THEN <<buffered>> ELSE <<>>
                     b1  == IF fl THEN 0 ELSE buffered
                 IN IF p >= BufCap THEN pre \o <<p>> \o BW(Tail(pieces), b1)
                                   ELSE pre \o BW(Tail(pieces), b1 + p)

EWrites(k, v) == BW(EPieces(k, v), 0)     \* write calls of LogWriter::append for a data entry
HWrites(k)    == BW(HPieces(k), 0)        \* write calls for a hint entry
\* merge copies a record with io::copy into a BufWriter that is flushed by every copy
\* (std specialisation; assumption CopyFlushes, checked by the syscall conformance): the record
\* reaches the output in pieces of at most BufCap bytes, one write(2) each
RECURSIVE Chunks(_)
Chunks(n) == IF n <= BufCap THEN <<n>> ELSE <<BufCap>> \o Chunks(n - BufCap)
CWrites(k, v) == Chunks(ESize(k, v))

-----------------------------------------------------------------------------------------
(* Files *)

EmptyFile == [ents |-> <<>>, torn |-> 0]

ESizeOf(e) == ESize(e.k, e.v)
RECURSIVE EntsBytes(_)
EntsBytes(ents) == IF ents = <<>> THEN 0 ELSE ESizeOf(Head(ents)) + EntsBytes(Tail(ents))
DSize(f) == EntsBytes(f.ents) + f.torn                  \* size of a data file in bytes
PosOf(ents, i) == EntsBytes(SubSeq(ents, 1, i - 1))      \* offset of the i-th entry

RECURSIVE HintBytes(_)
HintBytes(ents) == IF ents = <<>> THEN 0 ELSE HSize(Head(ents).k) + HintBytes(Tail(ents))
HFileSize(f) == HintBytes(f.ents) + f.torn

DataIds == DOMAIN data
TotalData(d) == SetSum(DOMAIN d, LAMBDA i : DSize(d[i]))

\* the entry of a data file that starts at byte offset pos, or None
EntryAt(f, pos) ==
    LET idx == {i \in 1..Len(f.ents) : PosOf(f.ents, i) = pos}
    IN IF idx = {} THEN NoEnt ELSE f.ents[CHOOSE i \in idx : TRUE]

-----------------------------------------------------------------------------------------
(* Statistics (LogStatistics in log.rs) *)

ZeroStat == [live |-> 0, dead |-> 0, dbytes |-> 0]
StatOf(st, f) == IF f \in DOMAIN st THEN st[f] ELSE ZeroStat
AddLive(st, f) == With(st, f, [StatOf(st, f) EXCEPT !.live = @ + 1])
AddDead(st, f, n) == With(st, f, [StatOf(st, f) EXCEPT !.dead = @ + 1, !.dbytes = @ + n])
\* live_keys -= 1 is an unsigned subtraction in the code: it underflows (panics in a debug
\* build, wraps in release) when live is 0.  The model lets it go negative; NoUnderflow
\* is the invariant.
Overwrite(st, f, n) ==
    With(st, f, [StatOf(st, f) EXCEPT !.live = @ - 1, !.dead = @ + 1, !.dbytes = @ + n])

\* fragmentation() > num/den without floating point (den > 0)
FragAbove(s, num, den) == s.dead > 0 /\ s.dead * den > num * (s.dead + s.live)

-----------------------------------------------------------------------------------------
(* Recovery: rebuild_storage / populate_keydir_with_{hintfile,datafile} *)

EmptyKeydir == [k \in Keys |-> NoKE]
KE(f, p, l) == [fid |-> f, pos |-> p, len |-> l]

\* keydir.insert(k, new) and the statistics update for an overwritten entry
InsertKD(st, k, new) ==
    [kd  |-> [st.kd EXCEPT ![k] = new],
     stt |-> IF st.kd[k] = NoKE THEN st.stt ELSE Overwrite(st.stt, st.kd[k].fid, st.kd[k].len)]

RECURSIVE ScanData(_, _, _, _)
ScanData(st, fid, ents, pos) ==
    IF ents = <<>> THEN st
    ELSE LET e   == Head(ents)
             len == ESizeOf(e)
             st1 == IF e.v = Tomb
                      THEN LET s0 == [st EXCEPT !.stt = AddDead(@, fid, len)]
                           IN IF s0.kd[e.k] = NoKE \/ "RecoveryIgnoresTombstones" \in Deviations THEN s0
                              ELSE [kd  |-> [s0.kd EXCEPT ![e.k] = NoKE],
                                    stt |-> Overwrite(s0.stt, s0.kd[e.k].fid, s0.kd[e.k].len)]
                      ELSE InsertKD([st EXCEPT !.stt = AddLive(@, fid)], e.k, KE(fid, pos, len))
         IN ScanData(st1, fid, Tail(ents), pos + len)

\* hint entries are trusted only while they lie inside the data file (written in data order)
RECURSIVE ScanHint(_, _, _, _)
ScanHint(st, fid, hents, dsize) ==
    IF hents = <<>> THEN st
    ELSE LET h == Head(hents)
         IN IF h.pos + h.len > dsize /\ "HintsTrustedBlindly" \notin Deviations THEN st
            ELSE ScanHint(InsertKD([st EXCEPT !.stt = AddLive(@, fid)], h.k, KE(fid, h.pos, h.len)),
                          fid, Tail(hents), dsize)

\* files are visited in ascending numeric id order; a hint file replaces the scan of its data file
RECURSIVE RebuildFrom(_, _, _, _)
RebuildFrom(st, ids, d, h) ==
    IF ids = {} THEN st
    ELSE LET f   == Min(ids)
             \* a file recovered from its hint file is made known to the statistics even when the hint file
             \* yields nothing (after a kill inside a merge the hint file can lack entries of its data file)
             \* the same for a scanned data file that yields no entry (it holds only the beginning of one)
             known == [st EXCEPT !.stt = IF f \in DOMAIN @ THEN @ ELSE With(@, f, ZeroStat)]
             stH == IF "HintFileUnknownToStats" \in Deviations THEN st ELSE known
             stD == IF "ScannedFileUnknownToStats" \in Deviations THEN st ELSE known
             st1 == IF f \in DOMAIN h THEN ScanHint(stH, f, h[f].ents, DSize(d[f]))
                                      ELSE ScanData(stD, f, d[f].ents, 0)
         IN RebuildFrom(st1, ids \ {f}, d, h)

Rebuild(d, h) == RebuildFrom([kd |-> EmptyKeydir, stt |-> <<>>], DOMAIN d, d, h)

\* the abstract map a keydir denotes over the given files ("?" = unreadable / wrong entry)
ReadKey(kd, d, k) ==
    IF kd[k] = NoKE THEN None
    ELSE IF kd[k].fid \notin DOMAIN d THEN "?"
    ELSE LET e == EntryAt(d[kd[k].fid], kd[k].pos)
         IN IF e = NoEnt \/ e.k # k \/ e.v = Tomb \/ ESizeOf(e) # kd[k].len THEN "?" ELSE e.v
MapOf(kd, d) == [k \in Keys |-> ReadKey(kd, d, k)]
RecoveredMap(d, h) == MapOf(Rebuild(d, h).kd, d)

-----------------------------------------------------------------------------------------
(* Merge selection: Context::fileids_to_merge (with the downward closure) *)

Eligible(f) ==
    \/ stats[f].dbytes > cfg.thDead
    \/ FragAbove(stats[f], cfg.thFragNum, cfg.thFragDen)
    \/ DSize(data[f]) < cfg.thSmall
Selected ==
    LET el == {f \in DOMAIN stats : Eligible(f)}
    IN IF el = {} \/ "MergeSelectsOnlyEligible" \in Deviations THEN el
       ELSE {f \in DOMAIN stats : f <= Max(el)}

-----------------------------------------------------------------------------------------
(* Initial state: an empty directory that has just been opened *)

CfgOK(c) == /\ c.maxFile \in Nat /\ c.sync \in {"none", "always"}
            /\ c.thFragNum \in Nat /\ c.thFragDen \in Nat \ {0}
            /\ c.thDead \in Nat /\ c.thSmall \in Nat

Idle == [pc |-> "idle"]

Init ==
    /\ cfg \in Configs
    /\ data = (0 :> EmptyFile)
    /\ hint = <<>>
    /\ dsync = (0 :> 0)
    /\ hsync = <<>>
    /\ keydir = EmptyKeydir
    /\ stats = <<>>
    /\ active = 0
    /\ written = 0
    /\ wr = Idle
    /\ model = [k \in Keys |-> None]
    /\ everIds = {0}
    /\ nops = 0
    /\ ncrash = 0
    /\ mghost = [lastFull |-> -1, leftover |-> -1]

-----------------------------------------------------------------------------------------
(* File-system primitives on the disk variables *)

CreateData(id) ==      \* open(O_CREAT|O_EXCL|O_APPEND); the code relies on the id being fresh
    /\ id \notin DOMAIN data
    /\ data' = With(data, id, EmptyFile)
    /\ dsync' = With(dsync, id, 0)
    /\ everIds' = everIds \cup {id}

\* one write(2) call of n bytes that is not the last one of its record: the record stays torn
TornWrite(f, n) == [f EXCEPT !.torn = @ + n]
\* the last write(2) call of a record: the record is complete
LastWrite(f, e) == [ents |-> Append(f.ents, e), torn |-> 0]

-----------------------------------------------------------------------------------------
(* put / delete: Writer::put, Writer::delete, Writer::write *)

StartWrite(k, v) ==
    /\ wr = Idle
    /\ nops' = nops + 1
    /\ wr' = [pc |-> "append", op |-> IF v = Tomb THEN "del" ELSE "put", k |-> k, v |-> v,
              calls |-> EWrites(k, v), ci |-> 1, pos |-> DSize(data[active]), fid |-> active]
    /\ UNCHANGED <<cfg, data, hint, dsync, hsync, keydir, stats, active, written, model,
                   everIds, ncrash, mghost>>

\* what follows the append inside Writer::write
AfterAppendPc == IF cfg.sync = "always" THEN "sync" ELSE "account"

\* one write(2) on the active file
AppendStep ==
    /\ wr.pc = "append"
    /\ LET last == wr.ci = Len(wr.calls)
       IN /\ data' = [data EXCEPT ![active] =
                         IF last THEN LastWrite(@, [k |-> wr.k, v |-> wr.v])
                                 ELSE TornWrite(@, wr.calls[wr.ci])]
          /\ wr' = IF last THEN [wr EXCEPT !.pc = AfterAppendPc] ELSE [wr EXCEPT !.ci = @ + 1]
    /\ UNCHANGED <<cfg, hint, dsync, hsync, keydir, stats, active, written, model, everIds,
                   nops, ncrash, mghost>>

\* fsync(active) under sync=always
SyncStep ==
    /\ wr.pc = "sync"
    /\ dsync' = [dsync EXCEPT ![active] = Len(data[active].ents)]
    /\ wr' = [wr EXCEPT !.pc = "account"]
    /\ UNCHANGED <<cfg, data, hint, hsync, keydir, stats, active, written, model, everIds,
                   nops, ncrash, mghost>>

\* written_bytes += len; statistics of the active file; then either roll over or publish.
\* No system call happens here; it is a step of its own because the next one may be a create.
AccountStep ==
    /\ wr.pc = "account"
    /\ LET len == ESize(wr.k, wr.v)
       IN /\ written' = written + len
          /\ stats' = IF wr.v = Tomb THEN AddDead(stats, active, len) ELSE AddLive(stats, active)
          /\ wr' = [wr EXCEPT !.pc = IF written + len > cfg.maxFile THEN "roll" ELSE "publish"]
    /\ UNCHANGED <<cfg, data, hint, dsync, hsync, keydir, active, model, everIds, nops,
                   ncrash, mghost>>

\* new_active_datafile(active + 1)
RollStep ==
    /\ wr.pc = "roll"
    /\ CreateData(active + 1)
    /\ active' = active + 1
    /\ written' = 0
    /\ wr' = [wr EXCEPT !.pc = "publish"]
    /\ UNCHANGED <<cfg, hint, hsync, keydir, stats, model, nops, ncrash, mghost>>

\* keydir.insert / keydir.remove, statistics of the overwritten entry, and the return
PublishStep ==
    /\ wr.pc = "publish"
    /\ LET prev == keydir[wr.k]
           new  == IF wr.v = Tomb THEN NoKE ELSE KE(wr.fid, wr.pos, ESize(wr.k, wr.v))
       IN /\ keydir' = [keydir EXCEPT ![wr.k] = new]
          /\ stats' = IF prev = NoKE THEN stats ELSE Overwrite(stats, prev.fid, prev.len)
    /\ model' = [model EXCEPT ![wr.k] = IF wr.v = Tomb THEN None ELSE wr.v]
    /\ wr' = Idle
    /\ mghost' = [mghost EXCEPT !.lastFull = -1]
    /\ UNCHANGED <<cfg, data, hint, dsync, hsync, active, written, everIds, nops, ncrash>>

\* the value `delete` returns is whether the keydir had the key when the tombstone was published
DelResult == wr.pc = "publish" /\ wr.op = "del" /\ keydir[wr.k] # NoKE

-----------------------------------------------------------------------------------------
(* merge: Writer::merge *)

\* ground truth about a file, from the files and the index alone (what the counters should say), and
\* eligibility by the documented thresholds on those true numbers: C13's "every non-empty file is eligible"
\* is about the files, not about what the store happens to know or select
TrueStatOf(f) ==
    LET lk == {k \in Keys : keydir[k] # NoKE /\ keydir[k].fid = f}
        lb == SetSum(lk, LAMBDA k : keydir[k].len)
    IN [live |-> Cardinality(lk), dead |-> Len(data[f].ents) - Cardinality(lk), dbytes |-> EntsBytes(data[f].ents) - lb]
EligibleTrue(f) ==
    \/ TrueStatOf(f).dbytes > cfg.thDead
    \/ FragAbove(TrueStatOf(f), cfg.thFragNum, cfg.thFragDen)
    \/ DSize(data[f]) < cfg.thSmall
MergeStartRec ==
    [pc |-> "m.create_data", op |-> "merge", sel |-> Selected, out |-> active + 1,
     first |-> active + 1, mpos |-> 0, k |-> None, ci |-> 1,
     size0 |-> TotalData(data),
     full |-> \A f \in DOMAIN data : DSize(data[f]) > 0 => EligibleTrue(f),
     unl |-> {}]
StartMerge ==
    /\ wr = Idle
    /\ nops' = nops + 1
    /\ wr' = MergeStartRec
    /\ UNCHANGED <<cfg, data, hint, dsync, hsync, keydir, stats, active, written, model,
                   everIds, ncrash, mghost>>

MergeCreateData ==
    /\ wr.pc = "m.create_data"
    /\ CreateData(wr.out)
    /\ wr' = [wr EXCEPT !.pc = "m.create_hint"]
    /\ UNCHANGED <<cfg, hint, hsync, keydir, stats, active, written, model, nops, ncrash, mghost>>

MergeCreateHint ==
    /\ wr.pc = "m.create_hint"
    /\ wr.out \notin DOMAIN hint
    /\ hint' = With(hint, wr.out, EmptyFile)
    /\ hsync' = With(hsync, wr.out, 0)
    /\ wr' = [wr EXCEPT !.pc = "m.loop"]
    /\ UNCHANGED <<cfg, data, dsync, keydir, stats, active, written, model, everIds, nops,
                   ncrash, mghost>>

\* keys whose current entry lives in a selected file and has not been moved yet
\* (moved entries point at an output id, which is never in sel)
MergeTodo == {k \in Keys : keydir[k] # NoKE /\ keydir[k].fid \in wr.sel}

\* the DashMap iterator yields the next key (any order) and its record is copied: the first (for
\* records up to BufCap bytes the only) write(2) into the output
MergeSrcEntry(k) == EntryAt(data[keydir[k].fid], keydir[k].pos)      \* the bytes the mapping yields
MergeCopy(k) ==
    /\ wr.pc = "m.loop" /\ k \in MergeTodo
    /\ LET e     == MergeSrcEntry(k)
           calls == CWrites(e.k, e.v)
       IN /\ e # NoEnt
          /\ IF Len(calls) = 1
               THEN /\ data' = [data EXCEPT ![wr.out] = LastWrite(@, e)]
                    /\ wr' = [wr EXCEPT !.pc = "m.repoint", !.k = k]
               ELSE /\ data' = [data EXCEPT ![wr.out] = TornWrite(@, calls[1])]
                    /\ wr' = [wr EXCEPT !.pc = "m.copy", !.k = k, !.ci = 2]
    /\ UNCHANGED <<cfg, hint, dsync, hsync, keydir, stats, active, written, model, everIds,
                   nops, ncrash, mghost>>
\* the remaining pieces of a record above BufCap bytes; the index is re-pointed only after the last one
MergeCopyMore ==
    /\ wr.pc = "m.copy"
    /\ LET e     == MergeSrcEntry(wr.k)
           calls == CWrites(e.k, e.v)
           last  == wr.ci = Len(calls)
       IN /\ data' = [data EXCEPT ![wr.out] = IF last THEN LastWrite(@, e) ELSE TornWrite(@, calls[wr.ci])]
          /\ wr' = IF last THEN [wr EXCEPT !.pc = "m.repoint"] ELSE [wr EXCEPT !.ci = @ + 1]
    /\ UNCHANGED <<cfg, hint, dsync, hsync, keydir, stats, active, written, model, everIds,
                   nops, ncrash, mghost>>

MergeRepoint ==
    /\ wr.pc = "m.repoint"
    /\ keydir' = [keydir EXCEPT ![wr.k] = KE(wr.out, wr.mpos, @.len)]
    /\ stats' = AddLive(stats, wr.out)
    /\ wr' = [wr EXCEPT !.pc = "m.hint", !.ci = 1]
    /\ UNCHANGED <<cfg, data, hint, dsync, hsync, active, written, model, everIds, nops,
                   ncrash, mghost>>

MergeHint ==
    /\ wr.pc = "m.hint"
    /\ LET calls == HWrites(wr.k)
           last  == wr.ci = Len(calls)
           kd    == keydir[wr.k]
           mpos1 == wr.mpos + kd.len
       IN /\ hint' = [hint EXCEPT ![wr.out] =
                         IF last THEN LastWrite(@, [k |-> wr.k, pos |-> kd.pos, len |-> kd.len])
                                 ELSE TornWrite(@, calls[wr.ci])]
          /\ wr' = IF ~last THEN [wr EXCEPT !.ci = @ + 1]
                   ELSE [wr EXCEPT !.mpos = mpos1, !.k = None,
                                   !.pc = IF mpos1 > cfg.maxFile THEN "m.roll_sync_data" ELSE "m.loop"]
    /\ UNCHANGED <<cfg, data, dsync, hsync, keydir, stats, active, written, model, everIds,
                   nops, ncrash, mghost>>

\* fsync of the current output data / hint file (before a roll and before the unlinks)
MergeSyncData ==
    /\ wr.pc \in {"m.roll_sync_data", "m.sync_data"}
    /\ dsync' = IF "MergeNoSync" \in Deviations THEN dsync
                ELSE [dsync EXCEPT ![wr.out] = Len(data[wr.out].ents)]
    /\ wr' = [wr EXCEPT !.pc = IF wr.pc = "m.sync_data" THEN "m.sync_hint" ELSE "m.roll_sync_hint"]
    /\ UNCHANGED <<cfg, data, hint, hsync, keydir, stats, active, written, model, everIds,
                   nops, ncrash, mghost>>

MergeSyncHint ==
    /\ wr.pc \in {"m.roll_sync_hint", "m.sync_hint"}
    /\ hsync' = IF "MergeNoSync" \in Deviations THEN hsync
                ELSE [hsync EXCEPT ![wr.out] = Len(hint[wr.out].ents)]
    /\ wr' = IF wr.pc = "m.sync_hint"
               THEN [wr EXCEPT !.pc = "m.unlink", !.unl = wr.sel]
               ELSE [wr EXCEPT !.pc = "m.create_data", !.out = @ + 1, !.mpos = 0]
    /\ UNCHANGED <<cfg, data, hint, dsync, keydir, stats, active, written, model, everIds,
                   nops, ncrash, mghost>>

\* the loop over the keydir is finished
MergeLoopEnd ==
    /\ wr.pc = "m.loop" /\ MergeTodo = {}
    /\ wr' = [wr EXCEPT !.pc = "m.sync_data"]
    /\ UNCHANGED <<cfg, data, hint, dsync, hsync, keydir, stats, active, written, model,
                   everIds, nops, ncrash, mghost>>

NextUnlink == IF "UnlinkDescending" \in Deviations THEN Max(wr.unl) ELSE Min(wr.unl)
\* for id in selected, ascending: unlink hint (ENOENT tolerated); unlink data; stats.remove(id)
MergeUnlinkHint ==
    /\ wr.pc = "m.unlink" /\ wr.unl # {}
    /\ LET id == NextUnlink
       IN /\ hint' = Drop(hint, id)
          /\ hsync' = Drop(hsync, id)
    /\ wr' = [wr EXCEPT !.pc = "m.unlink_data"]
    /\ UNCHANGED <<cfg, data, dsync, keydir, stats, active, written, model, everIds, nops, ncrash, mghost>>

MergeUnlinkData ==
    /\ wr.pc = "m.unlink_data"
    /\ LET id == NextUnlink
       IN /\ data' = Drop(data, id)
          /\ dsync' = Drop(dsync, id)
          /\ stats' = Drop(stats, id)      \* the statistics are forgotten only once the file is gone
          /\ wr' = [wr EXCEPT !.pc = "m.unlink", !.unl = @ \ {id}]
    /\ UNCHANGED <<cfg, hint, hsync, keydir, active, written, model, everIds, nops,
                   ncrash, mghost>>

\* new_active_datafile(last output + 1) and the return
MergeNewActive ==
    /\ wr.pc = "m.unlink" /\ wr.unl = {}
    /\ CreateData(wr.out + 1)
    /\ active' = wr.out + 1
    /\ written' = 0
    /\ wr' = Idle
    /\ mghost' = [mghost EXCEPT !.lastFull = IF wr.full THEN TotalData(data) ELSE -1]
    /\ UNCHANGED <<cfg, hint, hsync, keydir, stats, model, nops, ncrash>>

MergeStep ==
    \/ MergeCreateData \/ MergeCreateHint \/ (\E k \in Keys : MergeCopy(k)) \/ MergeCopyMore \/ MergeRepoint
    \/ MergeHint \/ MergeSyncData \/ MergeSyncHint \/ MergeLoopEnd \/ MergeUnlinkHint
    \/ MergeUnlinkData \/ MergeNewActive

-----------------------------------------------------------------------------------------
(* close + open: Drop for Bitcask, Bitcask::open *)

\* what Bitcask::open computes from a directory and the file it creates
OpenFrom(d, h) ==
    LET st == Rebuild(d, h)
        a  == IF DOMAIN d = {} THEN 0 ELSE Max(DOMAIN d) + 1
    IN /\ keydir' = st.kd
       /\ stats' = st.stt
       /\ active' = a
       /\ written' = 0
       /\ data' = With(d, a, EmptyFile)
       /\ dsync' = With(dsync, a, 0)
       /\ everIds' = everIds \cup {a}

Reopen ==
    /\ wr = Idle
    /\ nops' = nops + 1
    /\ OpenFrom(data, hint)
    /\ mghost' = [mghost EXCEPT !.leftover = -1]      \* the writer is a new object
    /\ UNCHANGED <<cfg, hint, hsync, wr, model, ncrash>>

\* SIGKILL between two steps: the directory keeps exactly what the issued calls did, the
\* process state is gone, and the next incarnation opens the directory.  What the crashed
\* operation achieved is whatever recovery finds; the acknowledged map continues from there.
Crash ==
    /\ ncrash < MaxCrashes
    /\ ncrash' = ncrash + 1
    /\ OpenFrom(data, hint)
    /\ wr' = Idle
    /\ model' = RecoveredMap(data, hint)
    /\ mghost' = [lastFull |-> -1, leftover |-> -1]
    /\ UNCHANGED <<cfg, hint, hsync, nops>>

-----------------------------------------------------------------------------------------
Next ==
    \/ ("put" \in Ops /\ \E k \in Keys, v \in Vals : StartWrite(k, v))
    \/ ("del" \in Ops /\ \E k \in Keys : StartWrite(k, Tomb))
    \/ ("merge" \in Ops /\ StartMerge)
    \/ ("reopen" \in Ops /\ Reopen)
    \/ AppendStep \/ SyncStep \/ AccountStep \/ RollStep \/ PublishStep
    \/ MergeStep
    \/ Crash

Spec == Init /\ [][Next]_vars

-----------------------------------------------------------------------------------------
(*                                   PROPERTIES                                        *)
-----------------------------------------------------------------------------------------
IdleState == wr = Idle
InWrite == wr.pc \in {"append", "sync", "account", "roll", "publish"}

\* the acknowledged map with the operation in flight applied
ModelWithInflight ==
    IF InWrite THEN [model EXCEPT ![wr.k] = IF wr.v = Tomb THEN None ELSE wr.v] ELSE model

\* C01 (and the read side of C04/C05): at every instant, what the index points at is exactly
\* the acknowledged value of every key -- also in the middle of appends, rollovers and merges.
ReadsMatchModel == MapOf(keydir, data) = model
\* delete's return value (keydir had the key) is "the key was present"
DelReportsPresence == \A k \in Keys : (keydir[k] = NoKE) <=> (model[k] = None)

\* C02/C05: whenever the store is idle, what a reopen would recover is the acknowledged map
RebuildAgrees == IdleState => RecoveredMap(data, hint) = model

\* C03: at EVERY instant (inside appends, rollovers, merges, unlink sequences) the directory
\* recovers to the acknowledged map, with the operation in flight applied or not.
CrashSafe == RecoveredMap(data, hint) \in {model, ModelWithInflight}

\* C09: the same for every image a power loss can leave under sync=always: every file cut
\* independently anywhere at or after its last fsync; creations and removals persistent.
CutFile(f, n) == [ents |-> SubSeq(f.ents, 1, n), torn |-> 0]
DataCuts == {c \in [DOMAIN data -> 0..MaxOr({Len(data[f].ents) : f \in DOMAIN data}, 0)] :
                \A f \in DOMAIN data : dsync[f] <= c[f] /\ c[f] <= Len(data[f].ents)}
HintCuts == {c \in [DOMAIN hint -> 0..MaxOr({Len(hint[f].ents) : f \in DOMAIN hint}, 0)] :
                \A f \in DOMAIN hint : hsync[f] <= c[f] /\ c[f] <= Len(hint[f].ents)}
PowerLossSafe ==
    cfg.sync = "always" =>
        \A cd \in DataCuts, ch \in HintCuts :
            RecoveredMap([f \in DOMAIN data |-> CutFile(data[f], cd[f])],
                         [f \in DOMAIN hint |-> CutFile(hint[f], ch[f])])
                \in {model, ModelWithInflight}

\* C12: hint files are only an accelerator
HintsAreAccelerator == IdleState => RecoveredMap(data, <<>>) = RecoveredMap(data, hint)

\* C13: evaluated at the instant the merge has removed its inputs
MergeDone == wr.pc = "m.unlink" /\ wr.unl = {}
LiveBytes == SetSum({k \in Keys : model[k] # None}, LAMBDA k : ESize(k, model[k]))
MergeShrinks == MergeDone => TotalData(data) <= wr.size0
\* (crash-free histories, as the property is quantified: after a kill inside a merge the copy whose hint entry was
\* never written is dead data in an output file that the hint-derived counters cannot see - DESIGN.md section 3)
FullMergeIsMinimal == (MergeDone /\ wr.full /\ ncrash = 0) => TotalData(data) = LiveBytes
MergeIdempotentInSize ==
    (MergeDone /\ wr.full /\ mghost.lastFull # -1 /\ ncrash = 0) => TotalData(data) = mghost.lastFull
\* every file that holds anything is known to merge selection (the downward closure of C05 and the reclaiming of
\* C13 depend on it), also after recovery from whatever a kill left behind
AllFilesKnown == IdleState => \A f \in DOMAIN data : DSize(data[f]) > 0 => f \in DOMAIN stats

\* C14: files only ever grow at their end or disappear as a whole; new ids exceed every id
\* the directory ever contained; a hint file belongs to a data file of the same incarnation
IsPrefixSeq(a, b) == Len(a) <= Len(b) /\ SubSeq(b, 1, Len(a)) = a
AppendOnlyStep ==
    /\ \A f \in DOMAIN data \cap DOMAIN data' :
           /\ IsPrefixSeq(data[f].ents, data'[f].ents)
           /\ DSize(data'[f]) >= DSize(data[f])
    /\ \A f \in DOMAIN hint \cap DOMAIN hint' :
           /\ IsPrefixSeq(hint[f].ents, hint'[f].ents)
           /\ HFileSize(hint'[f]) >= HFileSize(hint[f])
    /\ \A f \in DOMAIN data' \ DOMAIN data : f > Max(everIds)
    /\ \A f \in DOMAIN hint' \ DOMAIN hint : f \in DOMAIN data /\ f >= active
AppendOnly == [][AppendOnlyStep]_vars
\* a data file exceeds the maximum by at most its last entry
SizeBound == \A f \in DOMAIN data :
    Len(data[f].ents) > 0 => PosOf(data[f].ents, Len(data[f].ents)) <= cfg.maxFile

\* C19: in crash-free histories the counters equal ground truth whenever the store is idle
LiveKeysIn(f) == {k \in Keys : keydir[k] # NoKE /\ keydir[k].fid = f}
StatsTruth ==
    (IdleState /\ ncrash = 0) =>
        /\ DOMAIN stats \subseteq DOMAIN data
        /\ \A f \in DOMAIN data :
              LET s  == StatOf(stats, f)
                  lb == SetSum(LiveKeysIn(f), LAMBDA k : keydir[k].len)
              IN /\ s.live = Cardinality(LiveKeysIn(f))
                 /\ s.dead = Len(data[f].ents) - s.live
                 /\ s.dbytes = EntsBytes(data[f].ents) - lb
NoUnderflow == \A f \in DOMAIN stats : stats[f].live >= 0

\* structural sanity of the model itself
TypeOK ==
    /\ CfgOK(cfg)
    /\ (IdleState => active \in DOMAIN data)   \* a merge may unlink the active file before it creates the next one
    /\ DOMAIN hint \subseteq everIds /\ DOMAIN data \subseteq everIds
    /\ DOMAIN dsync = DOMAIN data /\ DOMAIN hsync = DOMAIN hint
    /\ \A k \in Keys : keydir[k] # NoKE => keydir[k].fid \in DOMAIN data

=========================================================================================
