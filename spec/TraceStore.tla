------------------------------- MODULE TraceStore -------------------------------
(***************************************************************************************)
(* Implementation -> specification, property level.                                    *)
(*                                                                                     *)
(* Input (IOEnv.TRACE): an NDJSON file written by the harness (storedrive): a header   *)
(* with the byte lengths of the symbolic keys/values, then for every run a `reset`     *)
(* event and one event per operation.  Every event carries what the REAL store did:    *)
(*   res    result of the call ("ok", "true", "false", "err:..", "panic")              *)
(*   gets   get() of every key through the public API after the operation              *)
(*   st     the private state (dump hook) and an independent scan of the real files,   *)
(*          in the vocabulary of Bitcask.tla (data, hint, keydir, stats, active)       *)
(*   rec    what Config::open recovers from a copy of the directory (all keys read)    *)
(*   recnh  the same from a copy without the hint files                                *)
(*                                                                                     *)
(* Each step consumes one event: the recorded real state is loaded into the variables  *)
(* of Bitcask.tla, the abstract map `model` is advanced by the operation, and the      *)
(* property definitions (the ones TLC checks on the specification itself) are          *)
(* evaluated on the real state as invariants.  Nothing here predicts the mechanism;    *)
(* that is TraceMech.tla.  An invariant named Cnn_* decides property Cnn.              *)
(***************************************************************************************)
EXTENDS Bitcask, Json, IOUtils

VARIABLES
    l,       \* index of the next event
    m        \* monitor state (see MInit)

tvars == <<vars, l, m>>

Rec == ndJsonDeserialize(IOEnv.TRACE)
Hdr == Rec[1]
TrKeys == DOMAIN Hdr.keys
TrVals == DOMAIN Hdr.vals
TrKLen == [k \in TrKeys |-> Hdr.keys[k]]
TrVLen == [v \in TrVals |-> Hdr.vals[v]]

Has(r, f) == f \in DOMAIN r

-----------------------------------------------------------------------------------------
(* Loading a recorded state *)

KeydirOf(seq) ==
    [k \in Keys |->
        LET idx == {i \in 1..Len(seq) : seq[i].k = k}
        IN IF idx = {} THEN NoKE
           ELSE LET e == seq[CHOOSE i \in idx : TRUE] IN KE(e.fid, e.pos, e.len)]

StatsOf(seq) ==
    [f \in {seq[i].f : i \in 1..Len(seq)} |->
        LET s == seq[CHOOSE i \in 1..Len(seq) : seq[i].f = f]
        IN [live |-> s.live, dead |-> s.dead, dbytes |-> s.dbytes]]

DataOf(seq) ==
    [id \in {seq[i].id : i \in 1..Len(seq)} |->
        LET d == seq[CHOOSE i \in 1..Len(seq) : seq[i].id = id]
        IN [ents |-> [j \in 1..Len(d.ents) |-> [k |-> d.ents[j].k, v |-> d.ents[j].v]],
            torn |-> d.torn]]

HintOf(seq) ==
    [id \in {seq[i].id : i \in 1..Len(seq)} |->
        LET d == seq[CHOOSE i \in 1..Len(seq) : seq[i].id = id]
        IN [ents |-> [j \in 1..Len(d.ents) |->
                        [k |-> d.ents[j].k, pos |-> d.ents[j].pos, len |-> d.ents[j].len]],
            torn |-> d.torn]]

RealSizes(seq) ==
    [id \in {seq[i].id : i \in 1..Len(seq)} |-> (seq[CHOOSE i \in 1..Len(seq) : seq[i].id = id]).size]

MapOfRec(r) == [k \in Keys |-> r[k]]      \* a recorded {key: value-name} object as a function

CfgOf(r) == [maxFile |-> r.maxFile, sync |-> r.sync, thFragNum |-> r.thFragNum,
             thFragDen |-> r.thFragDen, thDead |-> r.thDead, thSmall |-> r.thSmall]

-----------------------------------------------------------------------------------------
(* Ground truth computed from the files alone (independent of the store's own index) *)

\* all (fid, index) locations of entries of key k
LocsOf(d, k) ==
    UNION {{<<f, i>> : i \in {j \in 1..Len(d[f].ents) : d[f].ents[j].k = k}} : f \in DOMAIN d}
Later(p, q) == p[1] > q[1] \/ (p[1] = q[1] /\ p[2] > q[2])
\* the newest entry of k in recovery order, if it is a value: that is where k "lives"
LiveLoc(d, k) ==
    LET ls == LocsOf(d, k)
    IN IF ls = {} THEN <<-1, 0>>
       ELSE LET top == CHOOSE p \in ls : \A q \in ls : q = p \/ Later(p, q)
            IN IF d[top[1]].ents[top[2]].v = Tomb THEN <<-1, 0>> ELSE top
TrueLiveIn(d, f) == {k \in Keys : LiveLoc(d, k)[1] = f}
TrueStat(d, f) ==
    LET lk == TrueLiveIn(d, f)
        lb == SetSum(lk, LAMBDA k : ESizeOf(d[f].ents[LiveLoc(d, k)[2]]))
    IN [live |-> Cardinality(lk), dead |-> Len(d[f].ents) - Cardinality(lk),
        dbytes |-> EntsBytes(d[f].ents) - lb]

\* eligibility by the documented thresholds, on the true numbers and the real file size
TrulyEligible(d, sz, f) ==
    LET s == TrueStat(d, f)
    IN s.dbytes > cfg.thDead \/ FragAbove(s, cfg.thFragNum, cfg.thFragDen) \/ sz[f] < cfg.thSmall
SumSizes(sz) == SetSum(DOMAIN sz, LAMBDA f : sz[f])

-----------------------------------------------------------------------------------------
MInit == [run |-> "", sizes |-> <<>>, nmerge |-> 0, broken |-> FALSE, ok |-> TRUE,
          pre |-> [total |-> 0, full |-> FALSE, fullMergeTotal |-> -1, data |-> <<>>,
                   hint |-> <<>>, everIds |-> {}, active |-> 0],
          ever |-> {}]

TInit ==
    /\ l = 2
    /\ m = MInit
    /\ cfg = [maxFile |-> 0, sync |-> "none", thFragNum |-> 1, thFragDen |-> 1, thDead |-> 0, thSmall |-> 0]
    /\ data = <<>> /\ hint = <<>> /\ dsync = <<>> /\ hsync = <<>>
    /\ keydir = EmptyKeydir /\ stats = <<>> /\ active = 0 /\ written = 0
    /\ wr = Idle /\ model = [k \in Keys |-> None]
    /\ everIds = {} /\ nops = 0 /\ ncrash = 0 /\ mghost = [lastFull |-> -1, leftover |-> -1]

\* load the `st` object of event r into the Bitcask variables
LoadState(r) ==
    /\ data' = DataOf(r.st.data)
    /\ hint' = HintOf(r.st.hint)
    /\ keydir' = IF Has(r.st, "keydir") THEN KeydirOf(r.st.keydir) ELSE EmptyKeydir
    /\ stats' = IF Has(r.st, "stats") THEN StatsOf(r.st.stats) ELSE <<>>
    /\ active' = IF Has(r.st, "active") THEN r.st.active ELSE 0
    /\ written' = IF Has(r.st, "written") THEN r.st.written ELSE 0
    /\ dsync' = <<>> /\ hsync' = <<>> /\ wr' = Idle
    /\ ncrash' = 0 /\ mghost' = mghost

Reset ==
    /\ l <= Len(Rec) /\ Rec[l].ev = "reset"
    /\ LET r == Rec[l] IN
        /\ cfg' = CfgOf(r.cfg)
        /\ model' = [k \in Keys |-> None]
        /\ nops' = 0
        /\ IF r.res = "ok"
             THEN /\ LoadState(r)
                  /\ everIds' = {r.st.data[i].id : i \in 1..Len(r.st.data)}
                  /\ m' = [MInit EXCEPT !.run = r.run, !.sizes = RealSizes(r.st.data),
                                         !.ever = {r.st.data[i].id : i \in 1..Len(r.st.data)}]
             ELSE /\ UNCHANGED <<data, hint, dsync, hsync, keydir, stats, active, written, wr,
                                 everIds, ncrash, mghost>>
                  /\ m' = [MInit EXCEPT !.run = r.run, !.broken = TRUE, !.ok = FALSE]
    /\ l' = l + 1

\* "clock": the driver steps the wall clock (forwards or backwards).  Entries carry the time of their write,
\* but the specification has no clock: the step changes nothing, and everything after it is judged as before.
IsOpEv(e) == e \in {"put", "del", "merge", "reopen", "clock"}

Op ==
    /\ l <= Len(Rec) /\ IsOpEv(Rec[l].ev)
    /\ LET r == Rec[l]
           opened == Has(r, "gets")          \* false when a reopen failed
           full0 == \A f \in DOMAIN data : m.sizes[f] > 0 => TrulyEligible(data, m.sizes, f)
       IN
        /\ model' = CASE r.ev = "put" -> [model EXCEPT ![r.k] = r.v]
                      [] r.ev = "del" -> [model EXCEPT ![r.k] = None]
                      [] OTHER -> model
        /\ nops' = nops + 1
        /\ LoadState(r)
        /\ everIds' = everIds \cup {r.st.data[i].id : i \in 1..Len(r.st.data)}
        /\ cfg' = cfg
        /\ m' = [m EXCEPT
                   !.sizes = RealSizes(r.st.data),
                   !.nmerge = IF r.ev = "merge" THEN @ + 1 ELSE @,
                   !.broken = @ \/ ~opened,
                   !.pre = [total |-> SumSizes(m.sizes), full |-> full0,
                            fullMergeTotal |-> IF r.ev = "merge" /\ full0 THEN SumSizes(RealSizes(r.st.data))
                                               ELSE IF r.ev \in {"put", "del"} THEN -1
                                               ELSE m.pre.fullMergeTotal,
                            prevFullMergeTotal |-> m.pre.fullMergeTotal,
                            data |-> data, hint |-> hint, everIds |-> everIds, active |-> active],
                   !.ever = @ \cup {r.st.data[i].id : i \in 1..Len(r.st.data)}
                                 \cup {r.st.hint[i].id : i \in 1..Len(r.st.hint)}]
    /\ l' = l + 1

TNext == Reset \/ Op
TSpec == TInit /\ [][TNext]_tvars

-----------------------------------------------------------------------------------------
(* The event that produced the current state *)
Cur == Rec[l - 1]
AfterOp == l > 2 /\ IsOpEv(Cur.ev) /\ ~m.broken
AfterAny == l > 2 /\ ~m.broken
ModelBefore(k) ==   \* the abstract value of k before the current operation
    LET r == Cur IN IF r.ev \in {"put", "del"} /\ r.k = k THEN "?" ELSE model[k]

\* every name in the recorded state is a known key / value (the scanner understood the files)
NamesKnown ==
    AfterAny =>
        /\ \A f \in DOMAIN data : \A i \in 1..Len(data[f].ents) :
              data[f].ents[i].k \in Keys /\ data[f].ents[i].v \in Vals \cup {Tomb}
        /\ \A f \in DOMAIN hint : \A i \in 1..Len(hint[f].ents) : hint[f].ents[i].k \in Keys
        /\ \A i \in 1..Len(Cur.st.keydir) : Cur.st.keydir[i].k \in Keys
\* the size formulas of the specification are the real record sizes
SizesAgree ==
    AfterAny =>
        /\ \A i \in 1..Len(Cur.st.data) :
              /\ \A j \in 1..Len(Cur.st.data[i].ents) :
                    Cur.st.data[i].ents[j].len = ESize(Cur.st.data[i].ents[j].k, Cur.st.data[i].ents[j].v)
              /\ Cur.st.data[i].size = DSize(data[Cur.st.data[i].id])
        /\ \A i \in 1..Len(Cur.st.hint) : Cur.st.hint[i].size = HFileSize(hint[Cur.st.hint[i].id])

-----------------------------------------------------------------------------------------
(* C01: map semantics through the public API *)
C01_OpensAndAnswers ==     \* open and every call succeed in a fault-free run
    (l > 2 /\ Cur.ev = "reset") => Cur.res = "ok"
C01_Results ==
    AfterOp => CASE Cur.ev = "put" -> Cur.res = "ok"
                 [] Cur.ev = "del" -> Cur.res \in {"true", "false"}
                 [] OTHER -> TRUE
C01_Gets == AfterAny => MapOfRec(Cur.gets) = model
\* delete reports whether the key was present: checked against the reads recorded BEFORE it
C01_DelReportsPresence ==
    (AfterOp /\ Cur.ev = "del" /\ l > 3 /\ Has(Rec[l - 2], "gets")) =>
        (Cur.res = "true") = (Rec[l - 2].gets[Cur.k] # None)

(* C02: close/reopen preserves contents (merge-free histories; with merges it is C05) *)
C02_ReopenKeeps ==
    /\ (AfterOp /\ m.nmerge = 0) =>
          /\ (Cur.ev = "reopen" => Cur.res = "ok" /\ MapOfRec(Cur.gets) = model)
          /\ (Has(Cur, "rec") => Cur.rec.opened /\ MapOfRec(Cur.rec.map) = model)
    \* a merge is not an operation of the user (with policy `always` one runs in the background of any
    \* history of sets and deletes): whatever it did, a reopen reads what was read before the close, and a
    \* fresh open of a copy of the directory reads what the live store reads
    /\ (AfterOp /\ m.nmerge > 0) =>
          /\ (Cur.ev = "reopen" /\ Has(Rec[l - 2], "gets") => Cur.res = "ok" /\ Cur.gets = Rec[l - 2].gets)
          /\ (Has(Cur, "rec") => Cur.rec.opened /\ Cur.rec.map = Cur.gets)
C02_ReopenFails == (l > 2 /\ IsOpEv(Cur.ev) /\ Cur.ev = "reopen" /\ m.nmerge = 0) => Cur.res = "ok"

(* C05: compaction never changes what any key reads, now or after a restart *)
C05_MergeKeeps ==
    (AfterOp /\ m.nmerge > 0) =>
        /\ MapOfRec(Cur.gets) = model
        /\ (Cur.ev = "reopen" => Cur.res = "ok")
        /\ (Has(Cur, "rec") => Cur.rec.opened /\ MapOfRec(Cur.rec.map) = model)
C05_ReopenFails == (l > 2 /\ IsOpEv(Cur.ev) /\ Cur.ev = "reopen" /\ m.nmerge > 0) => Cur.res = "ok"

(* C12: recovery with and without hint files agrees *)
C12_HintsAreAccelerator ==
    (AfterOp /\ Has(Cur, "recnh") /\ Has(Cur, "rec")) =>
        /\ Cur.recnh.opened = Cur.rec.opened
        /\ (Cur.rec.opened => Cur.recnh.map = Cur.rec.map)

(* C13: compaction reclaims space and never grows the store (real file sizes) *)
TotalNow == SumSizes(m.sizes)
C13_MergeShrinks == (AfterOp /\ Cur.ev = "merge") => TotalNow <= m.pre.total
C13_FullMergeIsMinimal ==
    (AfterOp /\ Cur.ev = "merge" /\ m.pre.full /\ Cur.res = "ok") => TotalNow = LiveBytes
C13_MergeIdempotentInSize ==
    (AfterOp /\ Cur.ev = "merge" /\ m.pre.full /\ m.pre.prevFullMergeTotal # -1) =>
        TotalNow = m.pre.prevFullMergeTotal

(* C14 (file-content level; the system-call level is TraceFs.tla) *)
C14_AppendOnly ==
    AfterOp =>
        /\ \A f \in DOMAIN m.pre.data \cap DOMAIN data :
              /\ IsPrefixSeq(m.pre.data[f].ents, data[f].ents)
              /\ DSize(data[f]) >= DSize(m.pre.data[f])
        /\ \A f \in DOMAIN m.pre.hint \cap DOMAIN hint :
              IsPrefixSeq(m.pre.hint[f].ents, hint[f].ents)
C14_IdsOnlyGrow ==
    AfterOp => \A f \in DOMAIN data \ DOMAIN m.pre.data : \A g \in m.pre.everIds : f > g
C14_SizeBound == AfterAny => SizeBound
C14_OnlyStoreFiles == AfterAny => (Has(Cur.st, "other") => Cur.st.other = <<>>)

(* C19: the per-file counters equal ground truth computed from the files alone *)
C19_StatsTruth ==
    AfterAny =>
        /\ DOMAIN stats \subseteq DOMAIN data
        /\ \A f \in DOMAIN data : StatOf(stats, f) = TrueStat(data, f)
C19_NoUnderflow == AfterAny => \A f \in DOMAIN stats : stats[f].live >= 0 /\ stats[f].live < 1000000000

-----------------------------------------------------------------------------------------
(* Acceptance: every event was consumed (each step consumes exactly one) *)
Accepted ==
    LET d == TLCGet("stats").diameter
    IN IF d - 1 = Len(Rec) - 1 THEN TRUE
       ELSE Print(<<"TRACE NOT ACCEPTED: consumed", d - 1, "of", Len(Rec) - 1, "next event",
                    IF d + 1 <= Len(Rec) THEN Rec[d + 1].ev ELSE "-">>, FALSE)

\* what TLC prints for a violating state (keeps counterexamples short)
ErrAlias == [line |-> l - 1, run |-> m.run, event |-> Cur.ev, res |-> Cur.res, model |-> model]
==================================================================================
