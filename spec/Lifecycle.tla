---------------------------------- MODULE Lifecycle ----------------------------------
(***************************************************************************************)
(* Life cycle and background tasks of a store (C17, C18): Bitcask::open spawns the       *)
(* thread `bitcask-background-tasks` with two tasks,                                    *)
(*   merge_on_interval: while !shutdown.is_shutdown() {                                  *)
(*                          select!{ sleep(interval +- jitter), shutdown.recv => return } *)
(*                          if can_merge() { spawn_blocking(handle.merge()).await } }    *)
(*                      (returns at once when the policy is `never`; can_merge looks at   *)
(*                      the policy's window and at the triggers, handle.merge() at the    *)
(*                      `closed` flag; an error of the merge is logged and the loop goes  *)
(*                      on)                                                              *)
(*   sync_on_interval : while ... { select!{ sleep(interval), shutdown.recv => return };  *)
(*                                  spawn_blocking(handle.sync()).await }                 *)
(*                      (only with sync = interval)                                      *)
(* Drop for Bitcask sets `closed`, then drops the broadcast sender, which wakes both      *)
(* selects; every Handle method checks `closed` first.                                   *)
(*                                                                                     *)
(* One action per await point / check of the code: the timer branch of the select         *)
(* (MergeTimer), can_merge (MergeCheck), the closed check at the start of handle.merge     *)
(* (MergeStart), the end of the merge (MergeDone / MergeFails), and likewise for the sync   *)
(* task; the drop is two steps (DropStore, DropSender).                                  *)
(*                                                                                     *)
(* Time is an explicit clock.  A timer fires exactly when it is due and the steps between *)
(* two awaits take no time (time does not pass a due timer, a pending check or a pending   *)
(* wake-up), so deadlines are state invariants.  Nothing makes time advance: the liveness  *)
(* property BgExitsWithoutTimer holds with fairness on the tasks' own steps only, which is *)
(* how "even if its next timer is far away" is said in TLA+.  A running merge ends         *)
(* whenever it ends (its duration is not a timer).                                        *)
(***************************************************************************************)
EXTENDS Naturals, Integers, TLC

CONSTANTS
    Policy,        \* "always" | "never" | "window"
    I, J,          \* merge check interval and jitter, in ticks (a sleep lasts I-J .. I+J)
    S,             \* sync interval in ticks, 0 = no interval sync
    Day, WinFrom, WinTo,   \* policy `window`: merges only while WinFrom <= now % Day <= WinTo
    MaxTime,
    \* deviations (all FALSE = the code as it is)
    DevNoClosedCheck,      \* the background merge does not look at `closed`
    DevTaskEndsOnError,    \* the merge task returns when a merge fails
    DevDropDoesNotWait     \* the drop does not wait for the merge that holds the writer (the code before the repair of D10)

VARIABLES
    now,
    open,          \* the Bitcask object is alive
    closed,        \* the flag Handle methods check
    sender,        \* the broadcast sender exists (dropped with the Bitcask object)
    mt,            \* merge task: [st |-> "sleep" | "woke" | "triggered" | "busy" | "done", wake, from]
    stt,           \* sync task:  [st |-> "sleep" | "woke" | "done", wake, from]
    exited,        \* the background thread has returned
    trig,          \* some file currently exceeds a merge trigger
    crossed,       \* time the trigger was crossed (-1 = not crossed / merge started since)
    merges,        \* merges started
    spurious,      \* a merge started although can_merge was false at the check (or outside the window)
    lastSync,      \* time of the last fsync of the active file
    effects,       \* disk effects caused through handles after the close
    lateWork,      \* background merges / syncs that STARTED after the close
    dropTime,      \* when the store was dropped (-1 = not yet)
    waited,        \* the drop has taken the writer once (after setting the flag): whatever held it has finished
    lastEnd        \* when the last merge ended

vars == <<now, open, closed, sender, mt, stt, exited, trig, crossed, merges, spurious, lastSync, effects,
          lateWork, dropTime, waited, lastEnd>>

T(st, w) == [st |-> st, wake |-> w, from |-> now]
Sleep(w) == T("sleep", w)
Done == [st |-> "done", wake |-> 0, from |-> 0]

InWindowAt(t) == Policy # "window" \/ ((t % Day) >= WinFrom /\ (t % Day) <= WinTo)
InWindow == InWindowAt(now)

Init ==
    /\ now = 0 /\ open = TRUE /\ closed = FALSE /\ sender = TRUE
    /\ mt \in (IF Policy = "never" THEN {Done} ELSE {[st |-> "sleep", wake |-> d, from |-> 0] : d \in (I - J)..(I + J)})
    /\ stt = IF S = 0 THEN Done ELSE [st |-> "sleep", wake |-> S, from |-> 0]
    /\ exited = FALSE /\ trig = FALSE /\ crossed = -1 /\ merges = 0 /\ spurious = FALSE
    /\ lastSync = 0 /\ effects = 0 /\ lateWork = 0 /\ dropTime = -1 /\ waited = FALSE /\ lastEnd = 0

Due(t) == t.st = "sleep" /\ t.wake <= now
Transient(t) == t.st \in {"woke", "triggered"}
SeesShutdown(t) == t.st = "sleep" /\ ~sender

\* time passes only when nothing is due or pending
Tick ==
    /\ now < MaxTime /\ ~Due(mt) /\ ~Due(stt) /\ ~Transient(mt) /\ ~Transient(stt)
    /\ ~SeesShutdown(mt) /\ ~SeesShutdown(stt) /\ ~(closed /\ sender)
    /\ ~(mt = Done /\ stt = Done /\ ~exited)
    /\ now' = now + 1
    /\ UNCHANGED <<open, closed, sender, mt, stt, exited, trig, crossed, merges, spurious, lastSync, effects, lateWork, dropTime, waited, lastEnd>>

\* the write pattern crosses (or stops crossing) a trigger (not in the zero time between the check and
\* the start of a merge)
EnvTrigger ==
    /\ open /\ ~Transient(mt) /\ trig' = ~trig
    /\ crossed' = IF ~trig THEN now ELSE -1
    /\ UNCHANGED <<now, open, closed, sender, mt, stt, exited, merges, spurious, lastSync, effects, lateWork, dropTime, waited, lastEnd>>

-----------------------------------------------------------------------------------------
(* merge task *)
\* select!: the sleep is over (when the shutdown is ready too, select! may take either branch)
MergeTimer ==
    /\ Due(mt) /\ mt' = T("woke", 0)
    /\ UNCHANGED <<now, open, closed, sender, stt, exited, trig, crossed, merges, spurious, lastSync, effects, lateWork, dropTime, waited, lastEnd>>
\* can_merge(): the window and the triggers (not the closed flag)
MergeCheck ==
    /\ mt.st = "woke"
    /\ IF trig /\ InWindow
         THEN mt' = T("triggered", 0)
         ELSE \E d \in (I - J)..(I + J) : mt' = Sleep(now + d)
    /\ UNCHANGED <<now, open, closed, sender, stt, exited, trig, crossed, merges, spurious, lastSync, effects, lateWork, dropTime, waited, lastEnd>>
\* spawn_blocking(handle.merge()): the closed check; a refused merge is logged and the loop goes on
MergeStart ==
    /\ mt.st = "triggered"
    /\ IF closed /\ ~DevNoClosedCheck
         THEN /\ \E d \in (I - J)..(I + J) : mt' = Sleep(now + d)
              /\ UNCHANGED <<merges, crossed, lateWork, spurious>>
         ELSE /\ mt' = T("busy", 0)
              /\ merges' = merges + 1 /\ crossed' = -1
              /\ lateWork' = IF closed THEN lateWork + 1 ELSE lateWork
              /\ spurious' = (spurious \/ ~trig \/ ~InWindow)
    /\ UNCHANGED <<now, open, closed, sender, stt, exited, trig, lastSync, effects, dropTime, waited, lastEnd>>
\* the merge returns, with or without an error: back to the top of the loop
MergeDone ==
    /\ mt.st = "busy"
    /\ \E d \in (I - J)..(I + J) : mt' = Sleep(now + d)
    /\ lastEnd' = now
    /\ UNCHANGED <<now, open, closed, sender, stt, exited, trig, crossed, merges, spurious, lastSync, effects, lateWork, dropTime, waited>>
MergeFails ==
    /\ mt.st = "busy"
    /\ IF DevTaskEndsOnError THEN mt' = Done ELSE \E d \in (I - J)..(I + J) : mt' = Sleep(now + d)
    /\ lastEnd' = now
    \* the trigger is still exceeded: the deadline for the next attempt counts from here
    /\ crossed' = IF trig THEN now ELSE crossed
    /\ UNCHANGED <<now, open, closed, sender, stt, exited, trig, merges, spurious, lastSync, effects, lateWork, dropTime, waited>>
\* select!: shutdown.recv() completes because the sender is gone - no timer involved
MergeSeesShutdown ==
    /\ SeesShutdown(mt) /\ mt' = Done
    /\ UNCHANGED <<now, open, closed, sender, stt, exited, trig, crossed, merges, spurious, lastSync, effects, lateWork, dropTime, waited, lastEnd>>

-----------------------------------------------------------------------------------------
(* sync task *)
SyncTimer ==
    /\ Due(stt) /\ stt' = T("woke", 0)
    /\ UNCHANGED <<now, open, closed, sender, mt, exited, trig, crossed, merges, spurious, lastSync, effects, lateWork, dropTime, waited, lastEnd>>
\* spawn_blocking(handle.sync()): refused when closed, otherwise the active file is forced
SyncRun ==
    /\ stt.st = "woke"
    /\ stt' = Sleep(now + S)
    /\ lastSync' = IF closed THEN lastSync ELSE now
    /\ UNCHANGED <<now, open, closed, sender, mt, exited, trig, crossed, merges, spurious, effects, lateWork, dropTime, waited, lastEnd>>
SyncSeesShutdown ==
    /\ SeesShutdown(stt) /\ stt' = Done
    /\ UNCHANGED <<now, open, closed, sender, mt, exited, trig, crossed, merges, spurious, lastSync, effects, lateWork, dropTime, waited, lastEnd>>

-----------------------------------------------------------------------------------------
(* Drop for Bitcask: handle.close() - the flag, then the writer is taken once -, then the fields (the sender) are dropped *)
DropStore ==
    /\ open /\ open' = FALSE /\ closed' = TRUE /\ dropTime' = now
    /\ UNCHANGED <<now, sender, mt, stt, exited, trig, crossed, merges, spurious, lastSync, effects, lateWork, waited, lastEnd>>
\* close() takes the writer: a merge that holds it (busy) finishes first
DropWaitsForWriter ==
    /\ closed /\ ~waited /\ (mt.st # "busy" \/ DevDropDoesNotWait)
    /\ waited' = TRUE
    /\ UNCHANGED <<now, open, closed, sender, mt, stt, exited, trig, crossed, merges, spurious, lastSync, effects, lateWork, dropTime, lastEnd>>
\* the drop returns (the fields go: the sender)
DropSender ==
    /\ closed /\ waited /\ sender /\ sender' = FALSE
    /\ UNCHANGED <<now, open, closed, mt, stt, exited, trig, crossed, merges, spurious, lastSync, effects, lateWork, dropTime, waited, lastEnd>>
\* the thread returns when both tasks have (with policy `never` and no interval sync that is at once)
BgExit ==
    /\ mt = Done /\ stt = Done /\ ~exited /\ exited' = TRUE
    /\ UNCHANGED <<now, open, closed, sender, mt, stt, trig, crossed, merges, spurious, lastSync, effects, lateWork, dropTime, waited, lastEnd>>
\* any Handle method after the close: fails with Closed, no effect (effects stays 0)
HandleOpAfterClose ==
    /\ closed
    /\ UNCHANGED vars

Next == Tick \/ EnvTrigger \/ MergeTimer \/ MergeCheck \/ MergeStart \/ MergeDone \/ MergeFails \/ MergeSeesShutdown
        \/ SyncTimer \/ SyncRun \/ SyncSeesShutdown \/ DropStore \/ DropWaitsForWriter \/ DropSender \/ BgExit \/ HandleOpAfterClose
Spec == Init /\ [][Next]_vars
        /\ WF_vars(MergeSeesShutdown) /\ WF_vars(SyncSeesShutdown) /\ WF_vars(BgExit) /\ WF_vars(MergeDone)
        /\ WF_vars(MergeCheck) /\ WF_vars(MergeStart) /\ WF_vars(SyncRun) /\ WF_vars(DropSender) /\ WF_vars(DropWaitsForWriter)
        /\ WF_vars(MergeTimer) /\ WF_vars(SyncTimer)

-----------------------------------------------------------------------------------------
TypeOK ==
    /\ mt.st \in {"sleep", "woke", "triggered", "busy", "done"} /\ stt.st \in {"sleep", "woke", "done"}
    /\ now \in 0..MaxTime /\ merges \in Nat /\ lateWork \in Nat
(* C18 *)
PolicyNever == Policy = "never" => merges = 0
NoSpuriousMerge == ~spurious
\* while the store is open its tasks are there
TasksAlive == open => ((Policy # "never" => mt # Done) /\ (S > 0 => stt # Done))
\* once a trigger is exceeded (and stays so, with the window open all the while) a merge starts within one
\* check interval plus jitter, counted from the crossing or, if a merge was running then, from its end
Max(a, b) == IF a > b THEN a ELSE b
TriggeredMergeDeadline ==
    (Policy # "never" /\ open /\ trig /\ crossed >= 0 /\ mt.st = "sleep"
       /\ \A t \in Max(crossed, mt.from)..now : InWindowAt(t)) =>
        now <= Max(crossed, mt.from) + I + J
\* with interval sync the active file is forced to disk at least once per interval while open
IntervalSync == (S > 0 /\ open) => now - lastSync <= S
(* C17 *)
ClosedRejects == effects = 0
\* no background merge or sync starts its work after the close (one that had started may finish)
NoWorkStartsAfterClose == lateWork = 0
\* the worker is gone at once: no time passes between the drop (or the end of a merge that was running
\* at the drop) and its exit
PromptExit == (~open /\ ~exited /\ mt.st # "busy") => now <= Max(dropTime, lastEnd)
\* once the drop has RETURNED no merge of this store is at work any more: whoever opens the directory next is alone in it
NoWriterAfterDropReturned == ~sender => mt.st # "busy"
BgExitsWithoutTimer == (~open) ~> exited
=======================================================================================
