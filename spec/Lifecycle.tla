---------------------------------- MODULE Lifecycle ----------------------------------
(***************************************************************************************)
(* Life cycle and background tasks of a store (C17, C18): Bitcask::open spawns the       *)
(* thread `bitcask-background-tasks` with two tasks,                                    *)
(*   merge_on_interval: loop { select!{ sleep(interval +- jitter), shutdown.recv } ;    *)
(*                             if can_merge() { spawn_blocking(handle.merge()) } }       *)
(*                      (returns at once when the policy is `never`)                     *)
(*   sync_on_interval : loop { select!{ sleep(interval), shutdown.recv } ; handle.sync() } *)
(*                      (only with sync = interval)                                      *)
(* Drop for Bitcask sets `closed` and drops the broadcast sender, which wakes both       *)
(* selects; every Handle method checks `closed` first.                                   *)
(*                                                                                     *)
(* Time is an explicit clock.  A timer fires exactly when it is due (time does not pass  *)
(* a due timer), so deadlines are state invariants.  Nothing makes time advance: the    *)
(* liveness property BgExitsWithoutTimer holds with fairness on the shutdown wake-up     *)
(* only, which is how "even if its next timer is far away" is said in TLA+.              *)
(***************************************************************************************)
EXTENDS Naturals, Integers, TLC

CONSTANTS
    Policy,        \* "always" | "never"
    I, J,          \* merge check interval and jitter, in ticks (a sleep lasts I-J .. I+J)
    S,             \* sync interval in ticks, 0 = no interval sync
    MergeTime,     \* ticks a merge takes
    MaxTime

VARIABLES
    now,
    open,          \* the Bitcask object is alive
    closed,        \* the flag Handle methods check
    sender,        \* the broadcast sender exists (dropped with the Bitcask object)
    mt,            \* merge task: [st |-> "sleep", wake |-> t] | "merging" (until) | "done"
    stt,           \* sync task likewise
    exited,        \* the background thread has returned
    trig,          \* some file currently exceeds a merge trigger
    crossed,       \* time the trigger was crossed (-1 = not crossed / merge started since)
    merges,        \* merges started
    spurious,      \* a merge started although no trigger was exceeded at the check
    lastSync,      \* time of the last fsync of the active file
    effects        \* number of disk effects caused through handles after close

vars == <<now, open, closed, sender, mt, stt, exited, trig, crossed, merges, spurious, lastSync, effects>>

Sleep(w) == [st |-> "sleep", wake |-> w, from |-> now]
Done == [st |-> "done", wake |-> 0, from |-> 0]

Init ==
    /\ now = 0 /\ open = TRUE /\ closed = FALSE /\ sender = TRUE
    /\ mt \in (IF Policy = "never" THEN {Done} ELSE {[st |-> "sleep", wake |-> d, from |-> 0] : d \in (I - J)..(I + J)})
    /\ stt = IF S = 0 THEN Done ELSE [st |-> "sleep", wake |-> S, from |-> 0]
    /\ exited = FALSE /\ trig = FALSE /\ crossed = -1 /\ merges = 0 /\ spurious = FALSE
    /\ lastSync = 0 /\ effects = 0

Due(t) == t.st = "sleep" /\ t.wake <= now
Busy(t) == t.st = "busy"     \* a running merge ends whenever it ends (its duration is not a timer)

\* time passes only when no timer is due
Tick ==
    /\ now < MaxTime /\ ~Due(mt) /\ ~Due(stt)
    /\ now' = now + 1
    /\ UNCHANGED <<open, closed, sender, mt, stt, exited, trig, crossed, merges, spurious, lastSync, effects>>

\* the write pattern crosses (or stops crossing) a trigger
EnvTrigger ==
    /\ open /\ trig' = ~trig
    /\ crossed' = IF ~trig THEN now ELSE -1
    /\ UNCHANGED <<now, open, closed, sender, mt, stt, exited, merges, spurious, lastSync, effects>>

\* the sleep of the merge task is over: check the triggers
MergeWake ==
    /\ Due(mt) /\ sender
    /\ IF trig /\ ~closed
         THEN /\ mt' = [st |-> "busy", wake |-> now + MergeTime, from |-> now]
              /\ merges' = merges + 1 /\ crossed' = -1
         ELSE /\ \E d \in (I - J)..(I + J) : mt' = Sleep(now + d)
              /\ UNCHANGED <<merges, crossed>>
    /\ UNCHANGED <<now, open, closed, sender, stt, exited, trig, spurious, lastSync, effects>>
MergeDone ==
    /\ Busy(mt)
    /\ \E d \in (I - J)..(I + J) : mt' = IF sender THEN Sleep(now + d) ELSE Done
    /\ UNCHANGED <<now, open, closed, sender, stt, exited, trig, crossed, merges, spurious, lastSync, effects>>
SyncWake ==
    /\ Due(stt) /\ sender
    /\ stt' = Sleep(now + S)
    /\ lastSync' = IF closed THEN lastSync ELSE now
    /\ UNCHANGED <<now, open, closed, sender, mt, exited, trig, crossed, merges, spurious, effects>>

\* Drop for Bitcask
DropStore ==
    /\ open /\ open' = FALSE /\ closed' = TRUE /\ sender' = FALSE
    /\ UNCHANGED <<now, mt, stt, exited, trig, crossed, merges, spurious, lastSync, effects>>
\* select!: shutdown.recv() completes because the sender is gone - no timer involved
MergeSeesShutdown ==
    /\ ~sender /\ mt.st = "sleep" /\ mt' = Done
    /\ UNCHANGED <<now, open, closed, sender, stt, exited, trig, crossed, merges, spurious, lastSync, effects>>
SyncSeesShutdown ==
    /\ ~sender /\ stt.st = "sleep" /\ stt' = Done
    /\ UNCHANGED <<now, open, closed, sender, mt, exited, trig, crossed, merges, spurious, lastSync, effects>>
BgExit ==
    /\ mt = Done /\ stt = Done /\ ~sender /\ ~exited /\ exited' = TRUE
    /\ UNCHANGED <<now, open, closed, sender, mt, stt, trig, crossed, merges, spurious, lastSync, effects>>
\* any Handle method after the close: fails with Closed, no effect (effects stays 0)
HandleOpAfterClose ==
    /\ closed
    /\ UNCHANGED vars

Next == Tick \/ EnvTrigger \/ MergeWake \/ MergeDone \/ SyncWake \/ DropStore \/ MergeSeesShutdown
        \/ SyncSeesShutdown \/ BgExit \/ HandleOpAfterClose
Spec == Init /\ [][Next]_vars
        /\ WF_vars(MergeSeesShutdown) /\ WF_vars(SyncSeesShutdown) /\ WF_vars(BgExit) /\ WF_vars(MergeDone)

-----------------------------------------------------------------------------------------
(* C18 *)
PolicyNever == Policy = "never" => merges = 0
NoSpuriousMerge == ~spurious
\* once a trigger is exceeded (and stays so) a merge starts within one check interval plus jitter,
\* counted from the crossing or, if a merge was running then, from the end of that merge
TriggeredMergeDeadline ==
    (Policy = "always" /\ open /\ trig /\ crossed >= 0 /\ mt.st = "sleep") =>
        now <= (IF crossed > mt.from THEN crossed ELSE mt.from) + I + J
\* with interval sync the active file is forced to disk at least once per interval while open
IntervalSync == (S > 0 /\ open) => now - lastSync <= S
(* C17 *)
ClosedRejects == effects = 0
BgExitsWithoutTimer == (~open) ~> exited
=======================================================================================
