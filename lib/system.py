"""Checks of concurrency (C04), life cycle (C17) and background policy (C18).
   1. TLC checks BitcaskConc.tla (writer with multi-call appends / readers with per-object
      mappings and the shard guard / merger: NoPanic, GetLinearizable, PoolConserved, and the
      liveness property OpsTerminate) and Lifecycle.tla (explicit clock, one action per await point: PolicyNever,
      NoSpuriousMerge, TriggeredMergeDeadline, IntervalSync, ClosedRejects, and
      BgExitsWithoutTimer with fairness on the shutdown wake-up only);
   2. sysdrive runs the scenarios on the real store: forced schedules through the shim and the
      hook points, multi-thread stress with injected delays, drops relative to background
      activity, real timers;
   3. TLC judges the recorded scenarios (TraceSys.tla) and searches a linearization of every
      quiescent window of the stress histories (TraceLin.tla)."""
import time, json, os, random, re, shutil
from common import *

PROPS = {
    "C04": dict(mode="conc", trace=["C04_ForcedSchedules"]),
    "C17": dict(mode="close", trace=["C17_ClosedStore"]),
    "C18": dict(mode="bg", trace=["C18_BackgroundPolicy"]),
}

CONC_CFG = """SPECIFICATION Spec
CONSTANTS
  Keys = {keys}
  Vals = {{"v1", "vb"}}
  BigVals = {{"vb"}}
  Readers = {readers}
  PoolSize = {pool}
  WriterOps = {wops}
  ReaderOps = {rops}
  MaxMerges = 1
  RemapRule = "end"
  HoldShardLock = TRUE
INVARIANTS NoPanic GetLinearizable PoolConserved
PROPERTY OpsTerminate
CHECK_DEADLOCK FALSE
"""
LIFE_CFG = """SPECIFICATION Spec
CONSTANTS
  Policy = "{policy}"
  I = {i}
  J = {j}
  S = {s}
  Day = 6
  WinFrom = 2
  WinTo = 3
  MaxTime = {maxtime}
  DevNoClosedCheck = {dev1}
  DevTaskEndsOnError = {dev2}
  DevDropDoesNotWait = {dev3}
INVARIANTS TypeOK PolicyNever NoSpuriousMerge TasksAlive TriggeredMergeDeadline IntervalSync ClosedRejects NoWorkStartsAfterClose PromptExit NoWriterAfterDropReturned
PROPERTY BgExitsWithoutTimer
CHECK_DEADLOCK FALSE
"""
TRACE_CFG = """SPECIFICATION Spec
INVARIANTS {invs}
POSTCONDITION Accepted
ALIAS ErrAlias
CHECK_DEADLOCK FALSE
"""
LIN_CFG = "SPECIFICATION Spec\nPOSTCONDITION Accepted\nCHECK_DEADLOCK FALSE\n"


def model_check(v, prop, tier):
    q = tier == "quick"
    if prop == "C04":
        insts = [dict(keys='{"k1", "k2"}', readers='{"r1"}', pool=1, wops=3, rops=2),
                 dict(keys='{"k1"}', readers='{"r1", "r2"}', pool=1, wops=2, rops=2)] if q else \
                [dict(keys='{"k1", "k2"}', readers='{"r1", "r2"}', pool=1, wops=3, rops=2),
                 dict(keys='{"k1", "k2"}', readers='{"r1", "r2"}', pool=2, wops=2, rops=2)]
        for n, inst in enumerate(insts):
            cfg = write_cfg(f"conc_{os.getpid()}_{n}.cfg", CONC_CFG.format(**inst))
            r = tlc("BitcaskConc.tla", cfg, workers=NCPU, timeout=3400, xmx="24g", metatag=f"conc-{os.getpid()}-{n}")
            v.add_tlc(f"BitcaskConc.tla {inst} (safety + OpsTerminate)", r)
            if not r.ok:
                raise ToolError(f"BitcaskConc.tla violates {r.violated or r.eval_error}\n{r.out[-2500:]}")
    else:
        insts = [("always", 3, 1, 2), ("always", 2, 0, 3), ("never", 3, 1, 2), ("always", 4, 2, 0), ("window", 2, 0, 0), ("window", 2, 1, 2)]
        for pol, i, j, s in insts:
            cfg = write_cfg(f"life_{os.getpid()}_{pol}{i}{j}{s}.cfg", LIFE_CFG.format(policy=pol, i=i, j=j, s=s, maxtime=10 if q else 14,
                                                                                     dev1="FALSE", dev2="FALSE", dev3="FALSE"))
            r = tlc("Lifecycle.tla", cfg, workers=4, timeout=1200, metatag=f"life-{os.getpid()}-{pol}{i}{j}{s}")
            v.add_tlc(f"Lifecycle.tla policy={pol} I={i} J={j} S={s}", r)
            if not r.ok:
                raise ToolError(f"Lifecycle.tla violates {r.violated or r.eval_error}\n{r.out[-2500:]}")
        # the invariants are not vacuous: the model with a deviation switched on violates the one that names it
        for pol, d1, d2, d3, inv in (("always", "TRUE", "FALSE", "FALSE", "NoWorkStartsAfterClose"), ("window", "TRUE", "FALSE", "FALSE", "NoWorkStartsAfterClose"),
                                     ("always", "FALSE", "TRUE", "FALSE", "TasksAlive"), ("always", "FALSE", "FALSE", "TRUE", "NoWriterAfterDropReturned")):
            cfg = write_cfg(f"life_{os.getpid()}_dev{pol}{d1}{d2}{d3}.cfg", LIFE_CFG.format(policy=pol, i=2, j=0, s=0, maxtime=8, dev1=d1, dev2=d2, dev3=d3))
            r = tlc("Lifecycle.tla", cfg, workers=1, timeout=600, metatag=f"life-{os.getpid()}-dev{pol}{d1}{d2}{d3}")
            if r.violated != inv:
                raise ToolError(f"Lifecycle.tla with deviation ({pol}, {d1}, {d2}, {d3}) should violate {inv}, got {r.violated or 'no violation'}")
            v.cov.setdefault("deviations_rejected_by_the_model", []).append(f"policy={pol} DevNoClosedCheck={d1} DevTaskEndsOnError={d2} DevDropDoesNotWait={d3} -> {inv}")


GENCONC_CFG = """SPECIFICATION GSpec
CONSTANTS
  Keys = {keys}
  Vals = {vals}
  BigVals = {{"vb"}}
  Readers = {readers}
  PoolSize = {pool}
  WriterOps = {wops}
  ReaderOps = {rops}
  MaxMerges = {merges}
  RemapRule = "end"
  HoldShardLock = TRUE
INVARIANT Emit
CHECK_DEADLOCK FALSE
"""


def generated_schedules(v, tier, tag):
    """Spec -> impl for concurrency: complete random behaviours of BitcaskConc.tla (TLC simulation mode)."""
    q = tier == "quick"
    out = []
    for readers, pool, wops, num in (('{"r1", "r2"}', 1, 3, 300 if q else 3000), ('{"r1", "r2"}', 2, 3, 200 if q else 2000), ('{"r1"}', 1, 4, 100 if q else 1000)):
        cfg = write_cfg(f"genconc_{tag}_{pool}_{wops}.cfg", GENCONC_CFG.format(readers=readers, pool=pool, wops=wops, rops=2, merges=1,
                                                                              keys='{"k1", "k2"}', vals='{"v1", "vb"}'))
        r = tlc("Gen_Conc.tla", cfg, workers=1, timeout=1500, xmx="4g", metatag=f"genconc-{tag}-{pool}-{wops}",
                simulate=f"num={num}", extra=["-depth", "120", "-seed", str(seed() * 1000 + pool * 10 + wops)])
        v.add_tlc(f"Gen_Conc simulation: {num} behaviours, readers={readers} pool={pool} writer ops={wops}", r)
        seen = set()
        for m in re.finditer(r'<<"SCHEDULE", "(.*)">>', r.out):
            t = m.group(1)
            if t in seen:
                continue
            seen.add(t)
            d = json.loads(t.encode().decode("unicode_escape"))
            d["pool"] = pool
            out.append(d)
    # ... and EVERY complete behaviour of tiny instances (breadth-first search with the history variable:
    # one state per prefix of an interleaving), so that for these instances "for all interleavings" is
    # enumerated on the real threads, not sampled
    small = [("1 put/del of a two-call value, 1 get, 1 merge, 1 key", '{"r1"}', 1, 1, 1, 1, '{"vb"}'),
             ("2 puts/dels (one-call and two-call values), 1 get, no merge, 1 key", '{"r1"}', 1, 2, 1, 0, '{"v1", "vb"}')]
    if not q:
        small += [("2 puts/dels, 1 get, 1 merge", '{"r1"}', 1, 2, 1, 1, '{"vb"}'), ("1 put/del, 2 gets, 1 merge", '{"r1"}', 1, 1, 2, 1, '{"vb"}'),
                  ("1 put/del, 2 readers x 1 get, 1 merge, pool 1", '{"r1", "r2"}', 1, 1, 1, 1, '{"vb"}'),
                  ("1 put/del, 2 readers x 1 get, pool 2", '{"r1", "r2"}', 2, 1, 1, 0, '{"vb"}')]
    enum = {}
    for n, (what, readers, pool, wops, rops, merges, vals) in enumerate(small):
        cfg = write_cfg(f"genconc_{tag}_enum{n}.cfg", GENCONC_CFG.format(readers=readers, pool=pool, wops=wops, rops=rops, merges=merges,
                                                                       keys='{"k1"}', vals=vals))
        r = tlc("Gen_Conc.tla", cfg, workers=4, timeout=1500, xmx="6g", metatag=f"genconc-{tag}-enum{n}")
        v.add_tlc(f"Gen_Conc enumeration: {what}", r)
        if not r.ok:
            raise ToolError(f"Gen_Conc enumeration failed: {r.out[-2000:]}")
        seen = set(re.findall(r'<<"SCHEDULE", "(.*)">>', r.out))
        for t in sorted(seen):
            d = json.loads(t.encode().decode("unicode_escape"))
            d["pool"] = pool
            d["enumerated"] = n
            out.append(d)
        enum[what] = len(seen)
    v.cov["interleavings_enumerated_completely"] = enum
    return out


def inputs_for(prop, tier):
    rnd = random.Random(seed() * 131 + 5)
    q = tier == "quick"
    items = []
    if prop == "C04":
        for big in (8170, 8191, 8200, 9000, 20000, 70000):
            items.append({"kind": "forced-remap", "big": big})
            items.append({"kind": "forced-remap-cold", "big": big})
        for _ in range(3):
            items.append({"kind": "forced-merge-vs-get"})
        for nth, keys, vlen, mf in ((2, 4, 10, 100), (3, 12, 10, 100), (6, 12, 10, 1000000), (12, 16, 40, 0), (3, 6, 9000, 100000), (4, 24, 200, 4000)):
            items.append({"kind": "forced-get-during-merge", "nth": nth, "keys": keys, "vlen": vlen, "max_file": mf})
        for pool, waiters in ((1, 2), (2, 2), (2, 5), (4, 4), (4, 8)):
            items.append({"kind": "pool-contention", "pool": pool, "waiters": waiters, "rounds": 12 if q else 100})
        # a set / delete that fails, the writer held at the failing call, a get of the key meanwhile
        for op in ("del", "set"):
            items.append({"kind": "forced-fault-vs-get", "op": op, "nth": 0, "config": {"concurrency": 2}})
            items.append({"kind": "forced-fault-vs-get", "op": op, "nth": 1, "config": {"concurrency": 2, "max_file_size": 0}})
            items.append({"kind": "forced-fault-vs-get", "op": op, "nth": 1, "config": {"concurrency": 2, "sync": "always"}})
        for pool, fails in ((1, 1), (1, 3), (2, 2), (2, 5), (4, 4), (4, 9)):
            items.append({"kind": "read-fault", "pool": pool, "fails": fails})
        for i in range(24 if q else 240):
            items.append({"kind": "stress", "threads": rnd.choice([2, 3, 4]), "ops": rnd.choice([5, 6, 8]), "keys": rnd.choice([1, 2, 2]),
                          "windows": 5 if q else 8, "pool": rnd.choice([0, 1, 1, 2, 4]), "cache": rnd.choice([0, 1, 2, 256]),
                          "max_file": rnd.choice([0, 200, 30000, 30000]), "delay_us": rnd.choice([100, 400, 1500]), "merger": i % 4 != 0,
                          "clock": i % 3 == 1})
    elif prop == "C17":
        far = {"merge": {"policy": "always", "check_interval_ms": 3600000}}
        items.append({"kind": "idle", "config": far})
        items.append({"kind": "idle", "config": {"merge": {"policy": "never"}}})
        items.append({"kind": "idle", "config": {"sync": {"interval_ms": 3600000}, "merge": {"policy": "always", "check_interval_ms": 3600000}}})
        # the smallest intervals: the tasks must still look at the shutdown channel
        items.append({"kind": "idle-busy", "config": {"sync": {"interval_ms": 0}}})
        items.append({"kind": "idle-busy", "config": {"sync": {"interval_ms": 1}, "merge": {"policy": "always", "check_interval_ms": 0}}})
        items.append({"kind": "cycles", "n": 6, "config": {"sync": {"interval_ms": 0}, "merge": {"policy": "always", "check_interval_ms": 0}}})
        trig = {"fragmentation": 0.1, "dead_bytes": 10}
        for _ in range(2 if q else 6):
            items.append({"kind": "at-point", "point": "bg.merge.woke", "config": {"merge": {"policy": "always", "check_interval_ms": 40}}})
            items.append({"kind": "at-point", "point": "bg.merge.triggered", "config": {"merge": {"policy": "always", "check_interval_ms": 40, "triggers": trig}}})
            items.append({"kind": "at-point", "point": "merge.selected", "config": {"merge": {"policy": "always", "check_interval_ms": 40, "triggers": trig}}})
            items.append({"kind": "at-point", "point": "bg.sync.woke", "config": {"sync": {"interval_ms": 30}}})
            items.append({"kind": "writer-busy", "config": far})
            # (the write in flight still has a system call to make after the point it is held at: its rollover)
            items.append({"kind": "writer-busy", "config": {"max_file_size": 10, "merge": {"policy": "always", "check_interval_ms": 3600000}}})
            # the `window` policy (every hour inside the window) goes through the same life cycle
            win = {"window": {"start": 0, "end": 23}}
            items.append({"kind": "at-point", "point": "bg.merge.woke", "config": {"merge": {"policy": win, "check_interval_ms": 40, "triggers": trig}}})
            items.append({"kind": "at-point", "point": "bg.merge.triggered", "config": {"merge": {"policy": win, "check_interval_ms": 40, "triggers": trig}}})
        # the store has been open for several check intervals before the drop: policy always / never / a window that
        # contains the current hour / a window that does NOT (whatever the merge task does while it may not merge,
        # it must still notice the drop), and the same with interval sync
        hour = time.localtime().tm_hour
        outside = {"window": {"start": (hour + 12) % 24, "end": (hour + 12) % 24}}
        for pol in ("always", "never", {"window": {"start": 0, "end": 23}}, outside):
            items.append({"kind": "idle", "wait_ms": 300, "config": {"merge": {"policy": pol, "check_interval_ms": 30, "triggers": trig}}})
            items.append({"kind": "idle", "wait_ms": 250, "config": {"merge": {"policy": pol, "check_interval_ms": 40}, "sync": {"interval_ms": 25}}})
        items.append({"kind": "cycles", "n": 6, "hold_ms": 120, "config": {"merge": {"policy": outside, "check_interval_ms": 25}}})
        items.append({"kind": "cycles", "n": 6, "hold_ms": 120, "config": {"merge": {"policy": "always", "check_interval_ms": 25, "triggers": trig}, "sync": {"interval_ms": 20}}})
        # a background merge is in flight at the drop, the directory is opened again as soon as the drop has returned
        for nth, mf in ((2, 120), (4, 60), (1, 1000000)):
            items.append({"kind": "mid-merge-reopen", "nth": nth, "max_file": mf})
        items.append({"kind": "quick-cycles", "n": 25 if q else 100, "config": far})
        items.append({"kind": "quick-cycles", "n": 25 if q else 100, "config": {"sync": {"interval_ms": 3600000}, "merge": {"policy": "never"}}})
        items.append({"kind": "cycles", "n": 50 if q else 200, "config": {"merge": {"policy": "always", "check_interval_ms": 50}, "sync": {"interval_ms": 20}}})
        items.append({"kind": "cycles", "n": 50 if q else 200, "config": far})
    else:
        for interval, jitter in ((100, 0.0), (150, 0.3), (300, 0.3)) if q else ((100, 0.0), (150, 0.3), (300, 0.3), (200, 1.0), (250, 0.1)):
            for policy in ("always", "never"):
                for pattern in ("frag", "dead", "between", "none"):
                    items.append({"policy": policy, "pattern": pattern, "interval_ms": interval, "jitter": jitter, "observe": 3 if pattern in ("frag", "dead") and policy == "always" else 4})
        for interval in (60, 120) if q else (40, 60, 120, 250):
            items.append({"pattern": "sync", "interval_ms": interval, "observe": 10})
            items.append({"pattern": "sync-busy", "interval_ms": interval, "observe": 8})
            # one periodic fsync fails: the ticks after it go on
            # (observed for well over the scheduling slack of the judge, so that ticks that stop for good show)
            items.append({"pattern": "sync-fault", "interval_ms": interval, "observe": 4000 // interval})
        for interval, jitter in ((150, 0.0), (200, 0.3)):
            items.append({"policy": "always", "pattern": "frag-fault", "interval_ms": interval, "jitter": jitter, "observe": 5})
            # a trigger crossed by deletes alone, after the task has already checked a few times and found nothing
            items.append({"policy": "always", "pattern": "late-del", "interval_ms": interval, "jitter": jitter, "observe": 4})
            # the crossing write is held half-way while the task checks (twice), then idleness
            items.append({"policy": "always", "pattern": "frag-held", "interval_ms": interval, "jitter": jitter, "observe": 3})
            # a trigger that is already exceeded when the store is opened (left by an earlier incarnation), no client action
            items.append({"policy": "always", "pattern": "frag-reopen", "interval_ms": interval, "jitter": jitter, "observe": 3})
            items.append({"policy": "never", "pattern": "frag-reopen", "interval_ms": interval, "jitter": jitter, "observe": 3})
        # the policy does not depend on the time of day: the same crossing at the first, a middle and the last hour
        for hour in (0, 12, 22, 23):
            items.append({"policy": "always", "pattern": "frag", "interval_ms": 100, "jitter": 0.0, "observe": 3, "hour": hour})
            items.append({"policy": "never", "pattern": "frag", "interval_ms": 100, "jitter": 0.0, "observe": 3, "hour": hour})
    return items


LIFE_TRACE_CFG = """SPECIFICATION TSpec
CONSTANTS
  Policy = "{policy}"
  I = {i}
  J = {j}
  S = {s}
  Day = 1
  WinFrom = 0
  WinTo = 0
  MaxTime = {maxtime}
  DevNoClosedCheck = FALSE
  DevTaskEndsOnError = FALSE
  DevDropDoesNotWait = FALSE
INVARIANTS TypeOK NoWorkStartsAfterClose TasksAlive
POSTCONDITION Accepted
CHECK_DEADLOCK FALSE
"""


def life_mechanism(v, files, work, tag):
    """Mechanism level: the ordered log of background hook points and driver marks of every scenario must be
    a behaviour of Lifecycle.tla (TraceLife.tla); a rejection is drift, not an alarm."""
    groups = {}
    for f in files:
        for e in read_ndjson(f)[1:]:
            if "life" in e and "life_cfg" in e:
                k = (e["life_cfg"]["policy"], bool(e["life_cfg"]["sync"]))
                groups.setdefault(k, []).append({"life": e["life"], "kind": e.get("kind") or e.get("input", {}).get("pattern")})
    okn, drift = 0, []
    for (pol, sync), evs in sorted(groups.items()):
        f = os.path.join(work, f"life_{pol}_{int(sync)}.ndjson")
        with open(f, "w") as fh:
            fh.write("\n".join(json.dumps(x) for x in evs) + "\n")
        # order only: a merge sleep lasts 1..5 ticks, a sync sleep 2 ticks, so that any ratio of the two periods between
        # 2/5 and 2 (and the drift of real timers) is explainable; the deadlines are judged on measured times by TraceSys
        # (without interval sync there is one timer only: I = 1 tick, no jitter)
        mx = (max(sum(1 for x in e["life"] if x["name"].endswith(".woke")) for e in evs) + 3) * (5 if sync else 1)
        cfg = write_cfg(f"tracelife_{tag}_{pol}_{int(sync)}.cfg", LIFE_TRACE_CFG.format(policy=pol, s=2 if sync else 0, maxtime=mx,
                                                                                      i=3 if sync else 1, j=2 if sync else 0))
        try:
            r = tlc("TraceLife.tla", cfg, workers=1, env={"TRACE": f, "JAVA_TOOL_OPTIONS": JAVA_OPTS_TRACE}, timeout=150, xmx="3g",
                    metatag=f"trlife-{tag}-{pol}-{int(sync)}")
        except ToolError as e:
            # the search for an explanation did not finish (the order of the events is far from what the model expects):
            # mechanism level, so this is drift and not a failure of the check
            drift.append({"config": f"policy={pol} interval-sync={sync}", "first_unexplained": "no explanation found within 150 s: " + str(e)[:120]})
            continue
        v.cov.setdefault("tracelife_runs", []).append({"config": f"policy={pol} sync={sync}", "scenarios": len(evs), "states": r.distinct, "wall_s": round(r.wall, 1)})
        v.cov["transitions"] += r.generated
        v.cov["states"] += r.distinct
        if r.ok:
            okn += len(evs)
            continue
        m = re.search(r"LIFECYCLE MECHANISM DRIFT.*", r.out, re.S)
        if not m and not r.postcondition_failed and not r.violated:
            raise ToolError(f"life-cycle mechanism validation of {f} failed in the tooling: {r.out[-2500:]}")
        drift.append({"config": f"policy={pol} interval-sync={sync}",
                      "first_unexplained": " ".join((m.group(0) if m else (r.violated or "?")).split())[:400]})
    v.cov["lifecycle_timelines_accepted"] = okn
    if drift:
        v.cov["model_drift"] = True
        v.cov["lifecycle_mechanism_drift"] = drift[:5]
        log(f"model drift: life-cycle timelines that are not behaviours of Lifecycle.tla step by step (not an alarm): {drift[0]}")


def at_quiescence(v, prop, tier, tag):
    """The sequential property `prop` (C02, C12, C19) after CONCURRENT runs, at quiescence: threads of sets, gets and deletes
    and a merging thread run the stress windows of C04, every thread is joined, and then the counters are compared with an
    independent scan of the files (C19), a restart must read what the store read (C02), with and without hint files (C12)
    - TraceSys: <prop>_AtQuiescence.  A defect of the interleavings shows in the sequential properties only here."""
    # the same stress runs as C04's (threads x operations x windows on one or two keys, pool and cache sizes, file sizes,
    # injected delays, a merging thread)
    items = [x for x in inputs_for("C04", tier) if x.get("kind") == "stress"]
    work = os.path.join(OUT, "work", tag + "-q")
    os.makedirs(work, exist_ok=True)
    ifile = os.path.join(work, "inputs.jsonl")
    with open(ifile, "w") as f:
        for x in items:
            f.write(json.dumps(x) + "\n")
    pre = os.path.join(work, "conc")
    files, sums, aborts = run_shards("sysdrive", ["conc", ifile, pre, "--seed", str(seed())], pre, min(8, NCPU, len(items)), synth=synth_abort)
    cfg = write_cfg(f"tracesys_q_{tag}.cfg", TRACE_CFG.format(invs=f"{prop}_AtQuiescence"))
    n = 0
    for f in files:
        evs = read_ndjson(f)
        a = [e for e in evs[1:] if e.get("ev") != "lin"]
        if not a:
            continue
        p = f.replace(".ndjson", ".sys.ndjson")
        open(p, "w").write("\n".join(json.dumps(x) for x in [evs[0]] + a) + "\n")
        r = tlc("TraceSys.tla", cfg, workers=1, env={"TRACE": p, "JAVA_TOOL_OPTIONS": JAVA_OPTS_TRACE}, timeout=1200, xmx="3g",
                metatag=f"trq-{prop}-{os.path.basename(p)}-{os.getpid()}")
        v.cov["transitions"] += r.generated
        v.cov["states"] += r.distinct
        n += len(a)
        if r.ok:
            continue
        if not r.violated:
            raise ToolError(f"trace validation of {p} failed in the tooling: {r.out[-3000:]}")
        if len(v.violations) >= 5:
            continue
        st = r.alias_state()
        m = re.search(r"\bline = (\d+)", st)
        line = int(m.group(1)) if m else 0
        m = re.search(r'\bwhy = "([^"]*)"', st)
        why = m.group(1) if m else r.violated
        payload = {"property": prop, "invariant": r.violated, "why": why, "trace_file": p, "line": line, "seed": seed(),
                   "scenario": a[line - 2] if 2 <= line <= len(a) + 1 else {}}
        v.violation(f"{why} [line {line} of {os.path.basename(p)}]", save_replay(prop, payload))
    v.cov["concurrent_runs_judged_at_quiescence"] = n
    if not v.violations:
        shutil.rmtree(work, ignore_errors=True)


def synth_abort(note, evs, how):
    ev = {"ev": note.get("ev", "conc"), "abort": how, "input": note.get("input", {}), "kind": "abort"}
    return ev


def check(prop, tier):
    v = Verdict(prop, tier)
    tag = f"{prop}-{os.getpid()}"
    work = os.path.join(OUT, "work", tag)
    os.makedirs(work, exist_ok=True)
    mode = PROPS[prop]["mode"]
    try:
        build_harness()
        model_check(v, prop, tier)
        items = inputs_for(prop, tier)
        ifile = os.path.join(work, "inputs.jsonl")
        with open(ifile, "w") as f:
            for x in items:
                f.write(json.dumps(x) + "\n")
        pre = os.path.join(work, mode)
        # timing scenarios must not compete with each other for the CPU
        nshards = {"conc": min(8, len(items)), "close": 2, "bg": 4}[mode]
        files, sums, aborts = run_shards("sysdrive", [mode, ifile, pre, "--seed", str(seed())], pre, nshards, synth=synth_abort)
        if prop == "C04":
            # interleavings generated by TLC from BitcaskConc.tla, forced onto the real threads
            scheds = generated_schedules(v, tier, tag)
            sfile = os.path.join(work, "schedules.jsonl")
            with open(sfile, "w") as f:
                for x in scheds:
                    f.write(json.dumps(x) + "\n")
            pre2 = os.path.join(work, "sched")
            f2, s2, a2 = run_shards("sysdrive", ["sched", sfile, pre2, "--seed", str(seed())], pre2, min(NCPU, max(1, len(scheds))), synth=synth_abort)
            files += f2
            aborts += a2
            v.cov["interleavings_generated_by_tlc"] = len(scheds)
        if aborts:
            v.cov["process_deaths_in_code_under_test"] = aborts[:10]
        # split: scenario events -> TraceSys, history windows -> TraceLin
        sysfiles, linfiles = [], []
        for f in files:
            evs = read_ndjson(f)
            a = [e for e in evs[1:] if e.get("ev") != "lin"]
            b = [e for e in evs[1:] if e.get("ev") == "lin"]
            if a:
                p = f.replace(".ndjson", ".sys.ndjson")
                open(p, "w").write("\n".join(json.dumps(x) for x in [evs[0]] + a) + "\n")
                sysfiles.append(p)
            if b:
                p = f.replace(".ndjson", ".lin.ndjson")
                open(p, "w").write("\n".join(json.dumps(x) for x in [evs[0]] + b) + "\n")
                linfiles.append(p)
        cfg = write_cfg(f"tracesys_{tag}.cfg", TRACE_CFG.format(invs=" ".join(PROPS[prop]["trace"])))
        lcfg = write_cfg(f"tracelin_{tag}.cfg", LIN_CFG)

        def one(job):
            kind, f = job
            if kind == "sys":
                return kind, f, tlc("TraceSys.tla", cfg, workers=1, env={"TRACE": f, "JAVA_TOOL_OPTIONS": JAVA_OPTS_TRACE}, timeout=3000,
                                    xmx="3g", metatag=f"trs-{prop}-{os.path.basename(f)}-{os.getpid()}")
            return kind, f, tlc("TraceLin.tla", lcfg, workers=1, env={"TRACE": f, "JAVA_TOOL_OPTIONS": JAVA_OPTS_TRACE}, timeout=3000,
                                xmx="4g", metatag=f"trl-{prop}-{os.path.basename(f)}-{os.getpid()}")

        nscen, drift = 0, 0
        for kind, f, r in parallel(one, [("sys", f) for f in sysfiles] + [("lin", f) for f in linfiles], n=NCPU):
            v.cov["transitions"] += r.generated
            v.cov["states"] += r.distinct
            drift += r.out.count('<<"DRIFT"')
            evs = read_ndjson(f)
            if kind == "lin":
                nscen += len(evs) - 1
                if r.ok:
                    continue
                m = re.search(r'"NOT LINEARIZABLE: window at line", (\d+)', r.out)
                if not m:
                    raise ToolError(f"linearizability search on {f} failed in the tooling: {r.out[-2500:]}")
                if len(v.violations) >= 5:
                    continue
                line = int(m.group(1))
                w = evs[line - 1]
                bad = [o for o in w.get("ops", []) if o.get("res") in ("panic", "hang") or str(o.get("res", "")).startswith("err:")]
                why = (f"an operation {bad[0]['op']} ended with {bad[0]['res']}" if bad else "no linearization of this window exists")
                payload = {"property": prop, "why": why, "trace_file": f, "line": line, "seed": seed(), "window": w}
                v.violation(f"{why}: history window (run {w.get('run')}, window {w.get('window')}, {len(w.get('ops', []))} operations of "
                            f"{w.get('clients')} threads) [line {line} of {os.path.basename(f)}]", save_replay(prop, payload))
                continue
            if r.ok:
                nscen += max(0, r.distinct - 1)
                continue
            if not r.violated:
                raise ToolError(f"trace validation of {f} failed in the tooling: {r.out[-3000:]}")
            if len(v.violations) >= 5:
                continue
            st = r.alias_state()
            m = re.search(r"\bline = (\d+)", st)
            line = int(m.group(1)) if m else 0
            m = re.search(r'\bwhy = "([^"]*)"', st)
            why = m.group(1) if m else r.violated
            ev = evs[line - 1] if line else {}
            payload = {"property": prop, "invariant": r.violated, "why": why, "trace_file": f, "line": line, "seed": seed(), "scenario": ev}
            v.violation(f"{why} {json.dumps(ev.get('input', {k: ev.get(k) for k in ('kind', 'big')}))[:300]} [line {line} of {os.path.basename(f)}]",
                        save_replay(prop, payload))
        if mode in ("close", "bg") and not v.violations:
            life_mechanism(v, files, work, tag)
        if drift:
            v.cov["model_drift"] = True
            v.cov["drift_events"] = drift
        v.cov["traces_validated_against_impl"] = nscen
        v.cov["scenario_inputs"] = len(items)
        v.cov["exhaustive"] = False
        v.cov["rule"] = {
            "conc": "forced: the writer paused between the two write(2) calls of entries of 8200..70000 bytes while the only reader maps the file "
                    "(warm and cold), a get parked between index lookup and file read while a full merge is attempted; stress: 2-4 threads x 5-8 "
                    "ops x 5-8 windows on 1-2 keys, pool size 0/1/2/4, cache 1/2/256, max file 0/200/30000, every third value > 8 KiB, a merging "
                    "thread, delays injected at seven hook points; histories judged by TraceLin, a 10 s watchdog turns a stuck call into 'hang'",
            "close": "drop with the worker asleep on a one-hour timer, parked at bg.merge.woke / bg.merge.triggered / merge.selected / bg.sync.woke, "
                     "and while another thread sits inside the writer lock; afterwards every Handle method, recorded system calls, the worker thread "
                     "(/proc/self/task), an immediate reopen; 25 immediate and 50 normal open/close cycles with thread and descriptor counts",
            "bg": "policy always/never x write patterns that cross the fragmentation trigger, the dead-bytes trigger, lie between inclusion "
                  "threshold and trigger, or have nothing dead x intervals 100-300 ms x jitter 0/0.3: merge starts (merge.selected hook) within "
                  "interval+jitter+1.5 s or not at all during 3-4 intervals; interval sync: wake-up gaps and WHICH file each periodic fsync targets "
                  "while the active file rotates",
        }[mode]
        v.cov["samples"] = items[:2] + items[-2:]
        v.assumptions += [
            "wall-clock deadlines carry 1.5 s of scheduling slack; 'does not happen' is observed for 3-4 full intervals",
            "schedules beyond the forced ones are sampled (random delays at hook points), not enumerated; data races inside DashMap/crossbeam/parking_lot are trusted",
        ]
    finally:
        if not v.violations:
            shutil.rmtree(work, ignore_errors=True)
    return v.finish()


def replay(prop, path):
    rp = json.load(open(path))
    v = Verdict(prop, "quick")
    build_harness()
    tag = f"replay-{prop}-{os.getpid()}"
    work = os.path.join(OUT, "work", tag)
    os.makedirs(work, exist_ok=True)
    if "window" in rp:
        f = os.path.join(work, "w.ndjson")
        open(f, "w").write(json.dumps({"ev": "header"}) + "\n" + json.dumps(rp["window"]) + "\n")
        r = tlc("TraceLin.tla", write_cfg(f"tracelin_{tag}.cfg", LIN_CFG), workers=1, env={"TRACE": f, "JAVA_TOOL_OPTIONS": JAVA_OPTS_TRACE}, timeout=600)
        v.add_tlc("replay", r)
        if not r.ok:
            v.violation("recorded window is not linearizable", path)
    else:
        sc = rp.get("scenario", {})
        inp = sc.get("input") or {k: sc[k] for k in ("kind", "big") if k in sc}
        ifile = os.path.join(work, "inputs.jsonl")
        open(ifile, "w").write(json.dumps(inp) + "\n")
        mode = PROPS[prop]["mode"]
        pre = os.path.join(work, mode)
        files, sums, ab = run_shards("sysdrive", [mode, ifile, pre, "--seed", str(rp.get("seed", 1))], pre, 1, synth=synth_abort)
        evs = [e for e in read_ndjson(files[0]) if e.get("ev") != "lin"]
        open(files[0], "w").write("\n".join(json.dumps(x) for x in evs) + "\n")
        cfg = write_cfg(f"tracesys_{tag}.cfg", TRACE_CFG.format(invs=" ".join(PROPS[prop]["trace"])))
        r = tlc("TraceSys.tla", cfg, workers=1, env={"TRACE": files[0], "JAVA_TOOL_OPTIONS": JAVA_OPTS_TRACE}, timeout=600)
        v.add_tlc("replay", r)
        if r.violated:
            v.violation(f"{r.violated} reproduced", path)
    v.cov["traces_validated_against_impl"] = 1
    v.cov["samples"] = [rp.get("scenario") or rp.get("window")]
    return v.finish()
