"""Checks of the sequential storage group (C01 C02 C05 C12 C13 C19):
   1. TLC model-checks the property's invariants on Bitcask.tla (bounded instances);
   2. TLC generates every client behaviour of a bounded instance (Gen_Seq) -> replayed
      against the real store by storedrive, plus random long workloads;
   3. TLC validates every recorded execution against TraceStore.tla (property monitor)."""
import json, os, re, glob, shutil, time
from common import *

PROPS = {
    "C01": dict(mc=["TypeOK", "ReadsMatchModel", "DelReportsPresence"],
                trace=["C01_OpensAndAnswers", "C01_Results", "C01_Gets", "C01_DelReportsPresence"]),
    "C02": dict(mc=["RebuildAgrees"], trace=["C02_ReopenKeeps", "C02_ReopenFails"]),
    "C05": dict(mc=["ReadsMatchModel", "RebuildAgrees", "AllFilesKnown"], trace=["C05_MergeKeeps", "C05_ReopenFails"]),
    "C12": dict(mc=["HintsAreAccelerator"], trace=["C12_HintsAreAccelerator"]),
    "C13": dict(mc=["MergeShrinks", "FullMergeIsMinimal", "MergeIdempotentInSize", "AllFilesKnown"],
                trace=["C13_MergeShrinks", "C13_FullMergeIsMinimal", "C13_MergeIdempotentInSize"], scan=True),
    "C19": dict(mc=["StatsTruth", "NoUnderflow"], trace=["C19_StatsTruth", "C19_NoUnderflow"], scan=True),
}

MC_TMPL = """SPECIFICATION {spec}
CONSTANTS
  Keys = {keys}
  Vals = {vals}
  KLen <- MCKLen
  VLen <- MCVLen
  Configs <- {configs}
  MaxOps = {maxops}
  MaxCrashes = {crashes}
  Ops = {ops}
  Deviations = {{}}
CONSTRAINT OpsBound
{invs}
CHECK_DEADLOCK FALSE
"""
GEN_EXTRA = "\nCONSTANT WantTags = {}\n"      # Gen_Seq.tla: print every behaviour

TRACE_TMPL = """SPECIFICATION TSpec
CONSTANTS
  Keys <- TrKeys
  Vals <- TrVals
  KLen <- TrKLen
  VLen <- TrVLen
  Configs = {{}}
  MaxOps = 0
  MaxCrashes = 0
  Ops = {{}}
  Deviations = {{}}
INVARIANTS
  {invs}
POSTCONDITION Accepted
ALIAS ErrAlias
CHECK_DEADLOCK FALSE
"""

ALL_OPS = '{"put", "del", "merge", "reopen"}'
K2 = '{"k1", "k2"}'
V2 = '{"v0", "v1"}'


VBIG = '{"v0", "vB"}'     # "vB": 9000 bytes, above the write buffer (its record takes two write(2) calls, its merge copy two pieces)


def mc_cfg(name, invs, maxops, configs="MCConfigs", crashes=0, ops=ALL_OPS, spec="Spec", props=(), vals=V2):
    inv = ("INVARIANTS " + " ".join(invs)) if invs else ""
    if props:
        inv += "\nPROPERTY " + " ".join(props)
    return write_cfg(name, MC_TMPL.format(spec=spec, keys=K2, vals=vals, configs=configs, maxops=maxops,
                                          crashes=crashes, ops=ops, invs=inv))


def model_check(v, prop, tier):
    """Design level: the property's invariants on the specification, exhaustively within the bound."""
    invs = PROPS[prop]["mc"]
    plans = [("MC_Seq ops<=4, 16 configs", 4, "MCConfigs")] if tier == "quick" else \
            [("MC_Seq ops<=5, 16 configs", 5, "MCConfigs")]
    # the same with a value above the write buffer (two-call appends, merge copies in two pieces), file sizes
    # below one such record / between one and two / unbounded
    plans.append(("MC_Seq big value (9000 B), ops<=%d, 9 configs" % (3 if tier == "quick" else 4), 3 if tier == "quick" else 4, "MCConfigsBig"))
    for label, maxops, configs in plans:
        cfg = mc_cfg(f"mc_{prop}_{maxops}_{configs}.cfg", invs, maxops, configs, vals=VBIG if configs == "MCConfigsBig" else V2)
        r = tlc("MC_Seq.tla", cfg, workers=NCPU, timeout=3000, xmx="16g", metatag=f"mc-{prop}-{os.getpid()}")
        v.add_tlc(label, r)
        if not r.ok:
            # the specification itself violates the property: a defect of the model, not of /repo
            raise ToolError(f"specification check failed for {prop}: {r.violated or r.eval_error}\n{r.out[-3000:]}")


K3 = '{"k1", "k2", "k3"}'


def generate(v, tier, tag):
    """Spec -> impl: every client behaviour of the bounded instances, as JSON lines; plus GUIDED sets: deeper instances
    of which only the behaviours are printed that go through a situation the specification's own state recognises
    (Gen_Seq.tla: tags) - here a merge whose newest eligible file is eligible by its size alone while an older,
    larger file is taken only through the downward closure."""
    plans = [("ops=3, 16 configs", 3, "MCConfigs", {}), ("ops=4, 2 configs", 4, "MCConfigsGen2", {})]
    if tier == "thorough":
        plans = [("ops=4, 16 configs", 4, "MCConfigs", {}), ("ops=5, 2 configs", 5, "MCConfigsGen2", {})]
    guided = dict(keys=K3, vals='{"v1"}', ops='{"put", "del", "merge"}', want='{"closure-small"}')
    plans.append((f"guided: 3 keys, ops={5 if tier == 'quick' else 6}, size-only selection with closure", 5 if tier == "quick" else 6, "MCConfigsSmallOnly", guided))
    behaviours = {}
    for label, maxops, configs, g in plans:
        cfg = write_cfg(f"gen_{tag}_{maxops}_{configs}.cfg", MC_TMPL.format(
            spec="GSpec", keys=g.get("keys", K2), vals=g.get("vals", V2), configs=configs, maxops=maxops, crashes=0, ops=g.get("ops", ALL_OPS),
            invs="INVARIANT Emit") + (GEN_EXTRA if not g else f"\nCONSTANT WantTags = {g['want']}\n"))
        r = tlc("Gen_Seq.tla", cfg, workers=NCPU, timeout=3000, xmx="16g", metatag=f"gen-{tag}-{maxops}")
        v.add_tlc("Gen_Seq " + label, r)
        if not r.ok:
            raise ToolError(f"generator failed: {r.out[-2000:]}")
        for m in re.finditer(r'<<"BEHAVIOUR", "(.*)">>', r.out):
            s = m.group(1).encode().decode("unicode_escape")
            behaviours.setdefault(s, None)
    out = os.path.join(OUT, "work", tag, "behaviours.jsonl")
    os.makedirs(os.path.dirname(out), exist_ok=True)
    n = 0
    stats = dict(with_merge=0, with_reopen=0, with_rollover=0, with_hints=0, tags={})
    with open(out, "w") as f:
        f.write(json.dumps({"keys": {"k1": 1, "k2": 1, "k3": 1}, "vals": {"v0": 0, "v1": 1}}) + "\n")
        for s in behaviours:
            b = json.loads(s)
            b["id"] = f"g{n}"
            ops = [o["op"] for o in b["ops"]]
            stats["with_merge"] += "merge" in ops
            stats["with_reopen"] += "reopen" in ops
            stats["with_rollover"] += b.get("nfiles", 0) > 1 + ops.count("reopen") + ops.count("merge") * 2
            stats["with_hints"] += b.get("nhints", 0) > 0
            for t in b.get("tags", []):
                stats["tags"][t] = stats["tags"].get(t, 0) + 1
            f.write(json.dumps(b) + "\n")
            n += 1
    return out, n, stats


def drive(v, tier, tag, behaviours_file):
    work = os.path.join(OUT, "work", tag)
    files, summary, aborts = [], {}, []

    def add(label, res):
        f, sums, ab = res
        files.extend(f)
        aborts.extend(ab)
        summary[label] = {k: sum(x.get(k, 0) for x in sums) for k in ("runs", "ops", "probes", "lines")}

    add("generated", run_shards("storedrive", ["replay", behaviours_file, os.path.join(work, "gen"),
                                               "--seed", str(seed()), "--probe", "all"],
                                os.path.join(work, "gen"), NCPU))
    runs, ln = (120, 40) if tier == "quick" else (1500, 60)
    for scope, r, l in (("wide", runs, ln), ("size", max(8, runs // 10), ln), ("huge", 6 if tier == "quick" else 32, 7),
                        ("many", 4 if tier == "quick" else 24, 24)):
        pre = os.path.join(work, "rnd-" + scope)
        n = min(NCPU, r)
        add("random-" + scope, run_shards("storedrive", ["random", pre, "--seed", str(seed()), "--runs", str(r),
                                                         "--len", str(l), "--scope", scope, "--probe", "all"], pre, n))
    if aborts:
        v.cov["process_deaths_in_code_under_test"] = aborts[:10]
    return files, summary


def find_run(trace_file, line):
    """The events of the run that contains (1-based) line `line` of a trace file."""
    evs = read_ndjson(trace_file)
    i = line - 1
    start = i
    while start > 0 and evs[start].get("ev") != "reset":
        start -= 1
    end = i + 1
    return evs[0], evs[start:end]


def validate(v, prop, files, invs, tag):
    """Impl -> spec: TLC judges every recorded execution with the property's invariants."""
    cfg = write_cfg(f"trace_{prop}_{tag}.cfg", TRACE_TMPL.format(invs=" ".join(invs)))

    def one(f):
        return f, tlc("TraceStore.tla", cfg, workers=1, env={"TRACE": f, "JAVA_TOOL_OPTIONS": JAVA_OPTS_TRACE},
                      timeout=3000, xmx="3g", metatag=f"tr-{prop}-{os.path.basename(f)}-{os.getpid()}")

    results = parallel(one, files, n=NCPU)
    nev = 0
    for f, r in results:
        v.cov["transitions"] += r.generated
        v.cov["states"] += r.distinct
        nev += max(0, r.distinct - 1)
        if r.ok:
            continue
        if r.violated:
            if len(v.violations) >= 5:
                continue
            st = r.alias_state()
            m = re.search(r"\bline = (\d+)", st)
            line = int(m.group(1)) if m else 0
            hdr, evs = find_run(f, line) if line else ({}, [])
            run_id = evs[0].get("run") if evs else "?"
            payload = {"property": prop, "invariant": r.violated, "trace_file": f, "line": line, "run": run_id,
                       "seed": seed(), "header": hdr,
                       "behaviour": {"cfg": evs[0].get("cfg") if evs else None,
                                     "ops": [[e["ev"]] + [e[x] for x in ("k", "v", "skew") if x in e] for e in evs[1:]]},
                       "last_event": evs[-1] if evs else None}
            v.violation(f"{r.violated} fails at line {line} of {os.path.basename(f)} (run {run_id}): "
                        f"{json.dumps(payload['behaviour'])[:400]}", save_replay(prop, payload))
        elif r.eval_error or not r.ok:
            raise ToolError(f"trace validation of {f} failed in the tooling: {r.out[-3000:]}")
    v.cov["trace_events_validated"] = v.cov.get("trace_events_validated", 0) + nev
    return results


def failed_merges(v, tier, tag):
    """C05 also for merge passes that FAIL: every behaviour of the generated set that contains a merge is run
    once per system call its merges issue, with that call failing (ENOSPC, EIO); TraceFs judges reads in the
    running process and after a restart (the fault-containment verdicts, attributed to C05 when the failed
    call belonged to a merge)."""
    import fscalls
    gfile, ng = fscalls.gen_behaviours(v, tier, tag + "-fm", "none")
    lines = open(gfile).read().splitlines()
    keep = [lines[0]] + [x for x in lines[1:] if ["merge"] in json.loads(x)["ops"]]
    if tier == "quick":
        keep = [keep[0]] + [x for n, x in enumerate(keep[1:]) if (n + seed()) % 2 == 0]
    open(gfile, "w").write("\n".join(keep) + "\n")
    pre = os.path.join(OUT, "work", tag + "-fm", "fm")
    files, sums, aborts = run_shards("fsdrive", ["fault", gfile, pre, "--seed", str(seed()), "--max-points", "1000000", "--only-op", "merge"],
                                     pre, min(NCPU, max(1, len(keep) - 1)))
    if aborts:
        v.cov.setdefault("process_deaths_in_code_under_test", []).extend(aborts[:5])
    fscalls.validate(v, "C05", files, tag + "-fm")
    v.cov["failed_merge_runs"] = sum(x.get("runs", 0) for x in sums)
    v.cov["failed_merge_behaviours"] = len(keep) - 1
    if not v.violations:
        shutil.rmtree(os.path.join(OUT, "work", tag + "-fm"), ignore_errors=True)


def hints_after_crash(v, tier, tag):
    """C12 in histories with a kill: every behaviour of the generated set that contains a merge is run under the
    recording shim; for every boundary between two mutating calls the directory a kill there leaves is recovered,
    used further (put, restart, deletes / overwrites, a merge) and finally opened twice, with and without its hint
    files (TraceFs: C12_AfterCrash)."""
    import fscalls
    gfile, ng = fscalls.gen_behaviours(v, tier, tag + "-hc", "none")
    lines = open(gfile).read().splitlines()
    keep = [lines[0]] + [x for x in lines[1:] if ["merge"] in json.loads(x)["ops"]]
    open(gfile, "w").write("\n".join(keep) + "\n")
    pre = os.path.join(OUT, "work", tag + "-hc", "hc")
    files, sums, aborts = run_shards("fsdrive", ["crash", gfile, pre, "--seed", str(seed()), "--max-points", "1000000"],
                                     pre, min(NCPU, max(1, len(keep) - 1)))
    if aborts:
        v.cov.setdefault("process_deaths_in_code_under_test", []).extend(aborts[:5])
    fscalls.validate(v, "C12", files, tag + "-hc")
    v.cov["crash_probes_with_hintless_restart"] = sum(x.get("probes", 0) for x in sums)
    v.cov["crash_behaviours"] = len(keep) - 1
    if not v.violations:
        shutil.rmtree(os.path.join(OUT, "work", tag + "-hc"), ignore_errors=True)


def reclaim_after_crash(v, tier, tag):
    """C13 after a kill and after a power loss (all-eligible configurations): every second crash / power image of the
    generated behaviours is merged right after recovery, before anything is written; the store must then be exactly as
    large as its live data (TraceFs: C13_AfterCrash).  Also for entries above the write buffer (torn tails)."""
    import fscalls
    for mode, sync, judge in (("crash", "none", "C13"), ("power", "always", "C13p")):
        gfile, ng = fscalls.gen_behaviours(v, tier, f"{tag}-rc{mode}", sync)
        lines = open(gfile).read().splitlines()
        keep = [lines[0]] + [x for x in lines[1:] if json.loads(x)["cfg"]["thSmall"] >= 1000000]
        if tier == "quick":
            keep = [keep[0]] + [x for n, x in enumerate(keep[1:]) if (n + seed()) % 2 == 0]
        open(gfile, "w").write("\n".join(keep) + "\n")
        rs, nrs = fscalls.random_behaviours(f"{tag}-rc{mode}", sync, 6 if tier == "quick" else 40, 8, "size")
        files = []
        for name, bf, n, pts in (("rc", gfile, len(keep) - 1, "1000000"), ("rc-size", rs, nrs, "120")):
            pre = os.path.join(OUT, "work", f"{tag}-rc{mode}", name)
            f1, sums, aborts = run_shards("fsdrive", [mode, bf, pre, "--seed", str(seed()), "--max-points", pts], pre, min(NCPU, max(1, n)))
            files += f1
            v.cov[f"{mode}_probes_with_a_merge_right_after_recovery"] = v.cov.get(f"{mode}_probes_with_a_merge_right_after_recovery", 0) + sum(x.get("probes", 0) for x in sums) // 2
            if aborts:
                v.cov.setdefault("process_deaths_in_code_under_test", []).extend(aborts[:5])
        fscalls.validate(v, judge, files, f"{tag}-rc{mode}", report_as="C13")
        if not v.violations:
            shutil.rmtree(os.path.join(OUT, "work", f"{tag}-rc{mode}"), ignore_errors=True)


def model_check_c12_crash(v, tier):
    """HintsAreAccelerator also after a kill (MaxCrashes = 1), and the vacuity guard: with the repair of D8
    switched off (a file recovered from an empty hint file stays unknown to merge selection) TLC must find the
    history put; merge killed between copy and hint; del; merge."""
    maxops = 3 if tier == "quick" else 4
    cfg = mc_cfg(f"mc_C12_crash_{maxops}.cfg", ["HintsAreAccelerator", "RebuildAgrees"], maxops, "MCConfigs", crashes=1)
    r = tlc("MC_Seq.tla", cfg, workers=NCPU, timeout=3000, xmx="16g", metatag=f"mc-C12c-{os.getpid()}")
    v.add_tlc(f"MC_Seq + one Crash, ops<={maxops}, 16 configs: HintsAreAccelerator, RebuildAgrees", r)
    if not r.ok:
        raise ToolError(f"specification check failed for C12 (with a crash): {r.violated or r.eval_error}\n{r.out[-3000:]}")
    text = MC_TMPL.format(spec="Spec", keys=K2, vals='{"v0"}', configs="MCConfigsOneAll", maxops=4, crashes=1, ops=ALL_OPS,
                          invs="INVARIANTS HintsAreAccelerator").replace("Deviations = {}", 'Deviations = {"HintFileUnknownToStats"}')
    r = tlc("MC_Seq.tla", write_cfg("mc_C12_crash_dev.cfg", text), workers=NCPU, timeout=3000, xmx="16g", metatag=f"mc-C12d-{os.getpid()}")
    if r.violated != "HintsAreAccelerator":
        raise ToolError(f"Bitcask.tla with HintFileUnknownToStats should violate HintsAreAccelerator, got {r.violated or 'no violation'}")
    v.cov.setdefault("deviations_rejected_by_the_model", []).append("HintFileUnknownToStats -> HintsAreAccelerator (after a kill inside a merge)")


def check(prop, tier):
    v = Verdict(prop, tier)
    tag = f"{prop}-{os.getpid()}"
    work = os.path.join(OUT, "work", tag)
    try:
        build_harness()
        model_check(v, prop, tier)
        if prop == "C12":
            model_check_c12_crash(v, tier)
        bfile, nb, bstats = generate(v, tier, tag)
        files, summary = drive(v, tier, tag, bfile)
        validate(v, prop, files, PROPS[prop]["trace"], tag)
        if prop == "C05" and not v.violations:
            failed_merges(v, tier, tag)
        if prop == "C12" and not v.violations:
            hints_after_crash(v, tier, tag)
        if prop in ("C02", "C12", "C19") and not v.violations:
            import system
            system.at_quiescence(v, prop, tier, tag)
        if prop == "C13" and not v.violations:
            reclaim_after_crash(v, tier, tag)
        if prop in ("C01", "C02", "C05", "C12", "C13") and not v.violations:
            import fscalls
            keep = {"C01": lambda b: True, "C02": lambda b: True, "C05": lambda b: ["merge"] in b["ops"],
                    "C12": lambda b: ["merge"] in b["ops"],
                    "C13": lambda b: b["cfg"]["thSmall"] >= 1000000}[prop]
            fscalls.under_faults(v, prop, tier, tag, keep=keep, share=3 if prop in ("C01", "C02") else 2)
        nruns = sum(s["runs"] for s in summary.values())
        v.cov["traces_validated_against_impl"] = nruns
        v.cov["behaviours_generated_by_tlc"] = nb
        v.cov["behaviour_mix"] = bstats
        v.cov["driver"] = summary
        v.cov["exhaustive"] = False
        v.cov["rule"] = ("every client behaviour (put/del/merge/reopen over 2 keys x 2 values) of the bounded "
                         "instances generated by TLC from Gen_Seq.tla, replayed on the real store, plus random "
                         "workloads (6 keys, values 0..100 bytes; a size scope with 8 KiB-boundary and 20 kB "
                         "values; a huge scope with 16 MiB and 32 MiB values and a 70 kB key); each recorded execution validated by TLC against TraceStore.tla")
        with open(bfile) as f:
            lines = f.read().splitlines()
        v.cov["samples"] = [json.loads(x) for x in lines[1:4]]
        v.assumptions += [
            "TLC explores the specification exhaustively only within the stated bounds (2 keys, 2 values, <= 4/5 operations, 16 configurations)",
            "the harness's independent scanner and the dump hook report the real files / private state faithfully",
            "symbolic keys/values are instantiated by random bytes of the modelled length (seeded), always including NUL/0xFF/CR/LF",
        ]
    finally:
        if not v.violations:
            shutil.rmtree(work, ignore_errors=True)
    return v.finish()


def replay(prop, path):
    """Re-execute the behaviour of a replay file against the current tree and judge it again."""
    rp = json.load(open(path))
    if "scenario" in rp:
        # a concurrent run judged at quiescence: the runs are repeated with the recorded seed (histories of concurrent
        # runs differ from run to run; the replay says whether the violation shows again)
        import system
        os.environ["VERIF_SEED"] = str(rp.get("seed", 1))
        v = Verdict(prop, "quick")
        build_harness()
        system.at_quiescence(v, prop, "quick", f"replay-{prop}-{os.getpid()}")
        v.cov["traces_validated_against_impl"] = v.cov.get("concurrent_runs_judged_at_quiescence", 0)
        v.cov["samples"] = [rp.get("scenario", {}).get("input", {})]
        return v.finish()
    if rp.get("mode") in ("fault", "crash", "power"):
        # a run with a failed call / a kill (C05 failed merges, the under-faults and after-crash parts): replayed by the fs-call machinery
        import fscalls
        return fscalls.replay(prop, path)
    v = Verdict(prop, "quick")
    build_harness()
    tag = f"replay-{prop}-{os.getpid()}"
    work = os.path.join(OUT, "work", tag)
    os.makedirs(work, exist_ok=True)
    bfile = os.path.join(work, "behaviours.jsonl")
    hdr = rp["header"]
    with open(bfile, "w") as f:
        f.write(json.dumps({"keys": hdr["keys"], "vals": hdr["vals"]}) + "\n")
        f.write(json.dumps({"id": rp.get("run", "replay"), "cfg": rp["behaviour"]["cfg"], "ops": rp["behaviour"]["ops"]}) + "\n")
    p = run([os.path.join(BIN, "storedrive"), "replay", bfile, os.path.join(work, "re"), "--seed", str(rp.get("seed", 1)),
             "--threads", "1", "--probe", "all"], timeout=600)
    if p.returncode != 0:
        raise ToolError(p.stdout[-2000:])
    files = json.loads(p.stdout.strip().splitlines()[-1])["files"]
    validate(v, prop, files, PROPS[prop]["trace"], tag)
    v.cov["traces_validated_against_impl"] = 1
    v.cov["samples"] = [rp["behaviour"]]
    return v.finish()
