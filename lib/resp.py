"""Checks of the RESP codec (C07 parser totality/exactness, C08 round trip and chunking).
   1. TLC checks the decoder/encoder properties on Resp.tla over every valid-prefix-closed
      byte string up to a length (MC_RespBytes) and every stream of a bounded frame set under
      every two-way segmentation and byte-at-a-time (MC_RespFrames);
   2. the same runs print every string / stream; respdrive gives them, padded variants, digit
      and nesting stretches and seeded fuzz to the real Frame::check / Frame::parse, and pushes
      the streams (plus streams with 8-20 kB payloads) through the real Connection;
   3. TLC re-evaluates the operators of Resp.tla on every recorded input and compares
      (TraceResp.tla)."""
import json, os, re, shutil
from common import *

PROPS = {
    "C07": dict(trace=["C07_ParserTotalAndExact"]),
    "C08": dict(trace=["C08_RoundTrip"]),
}

ALPHABET = "{43, 45, 58, 36, 42, 48, 49, 50, 57, 13, 10, 97}"

BYTES_CFG = """SPECIFICATION Spec
CONSTANTS
  Alphabet = {alpha}
  MaxLen = {maxlen}
  EmitOn = {emit}
INVARIANTS CheckParseAgree ParseImpliesCheck IncompleteNeverParses PositionIndependent IntegerExact NestUniform Emit
CHECK_DEADLOCK FALSE
"""
FRAMES_CFG = """SPECIFICATION Spec
CONSTANTS
  MaxFrames = {maxframes}
  EmitOn = {emit}
INVARIANTS AllWritableClean RoundTrip ChunkingIndependent PrefixIsIncomplete EofInsideFrameIsError Emit
CHECK_DEADLOCK FALSE
"""
TRACE_CFG = """SPECIFICATION Spec
INVARIANTS {invs}
POSTCONDITION Accepted
ALIAS ErrAlias
CHECK_DEADLOCK FALSE
"""


def extract(out, tag, key):
    items = []
    for m in re.finditer(r'<<"%s", "(.*)">>' % tag, out):
        d = json.loads(m.group(1).encode().decode("unicode_escape"))
        items.append({key: d[key]})
    return items


def known_abort_synth(note, evs, how):
    """respdrive died inside the code under test: the pending note becomes the observation."""
    ev = dict(note)
    phase = ev.pop("phase", "check")
    if ev.get("ev") == "bytes":
        ev.setdefault("check", {"kind": "abort"})
        ev.setdefault("parse", {"kind": "abort"})
    elif ev.get("ev") == "deepnest":
        ev.setdefault("check", {"kind": "abort"})
        ev.setdefault("parse", {"kind": "abort", "class": "-"})
    elif ev.get("ev") == "longrun":
        ev["check"] = {"kind": ev.get("check", {}).get("kind", "abort")}
        ev.setdefault("parse", {"kind": "abort", "class": "-"})
        ev.setdefault("ref_check", {"kind": "-"})
        ev.setdefault("ref_parse", {"kind": "-", "class": "-"})
    else:
        ev.update({"write": "ok" if phase == "read" else "abort", "encoded": [], "runs": [{"how": "abort", "segs": [], "upto": 0, "got": [], "end": "panic"}]})
    ev["abort"] = how
    return ev


def check(prop, tier):
    v = Verdict(prop, tier)
    tag = f"{prop}-{os.getpid()}"
    work = os.path.join(OUT, "work", tag)
    os.makedirs(work, exist_ok=True)
    q = tier == "quick"
    try:
        build_harness()
        if prop == "C07":
            # design level, deeper than what is printed
            mc_len, gen_len = (6, 5) if q else (7, 6)
            cfg = write_cfg(f"respb_mc_{tag}.cfg", BYTES_CFG.format(alpha=ALPHABET, maxlen=mc_len, emit="FALSE"))
            r = tlc("MC_RespBytes.tla", cfg, workers=NCPU, timeout=3000, xmx="16g", metatag=f"respb-{tag}")
            v.add_tlc(f"MC_RespBytes: all valid-prefix-closed strings <= {mc_len} bytes over 12 symbols", r)
            if not r.ok:
                raise ToolError(f"Resp.tla violates its own property {r.violated or r.eval_error}\n{r.out[-2000:]}")
            cfg = write_cfg(f"respb_gen_{tag}.cfg", BYTES_CFG.format(alpha=ALPHABET, maxlen=gen_len, emit="TRUE"))
            r = tlc("MC_RespBytes.tla", cfg, workers=NCPU, timeout=3000, xmx="16g", metatag=f"respg-{tag}")
            v.add_tlc(f"MC_RespBytes generation <= {gen_len} bytes", r)
            inputs = extract(r.out, "RESP", "buf")
            mode, fuzz = "bytes", (20000 if q else 300000)
        else:
            mf = 2
            cfg = write_cfg(f"respf_{tag}.cfg", FRAMES_CFG.format(maxframes=mf, emit="TRUE"))
            r = tlc("MC_RespFrames.tla", cfg, workers=NCPU, timeout=3000, xmx="16g", metatag=f"respf-{tag}")
            v.add_tlc(f"MC_RespFrames: streams of <= {mf} frames from 67 frames, every 2-way cut and bytewise", r)
            if not r.ok:
                raise ToolError(f"Resp.tla violates its own property {r.violated or r.eval_error}\n{r.out[-2000:]}")
            inputs = extract(r.out, "STREAM", "frames")
            mode, fuzz = "conn", 0
        ifile = os.path.join(work, "inputs.jsonl")
        with open(ifile, "w") as f:
            for x in inputs:
                f.write(json.dumps(x) + "\n")
        pre = os.path.join(work, mode)
        files, sums, aborts = run_shards("respdrive", [mode, ifile, pre, "--seed", str(seed()), "--fuzz", str(fuzz)] + ([] if q else ["--huge"]),
                                         pre, NCPU, synth=known_abort_synth)
        if aborts:
            v.cov["process_deaths_in_code_under_test"] = aborts[:10]
        cfg = write_cfg(f"traceresp_{tag}.cfg", TRACE_CFG.format(invs=" ".join(PROPS[prop]["trace"])))

        def one(f):
            return f, tlc("TraceResp.tla", cfg, workers=1, env={"TRACE": f, "JAVA_TOOL_OPTIONS": JAVA_OPTS_TRACE},
                          timeout=3000, xmx="4g", metatag=f"trr-{prop}-{os.path.basename(f)}-{os.getpid()}")

        nobs, drift = 0, 0
        for f, r in parallel(one, files, n=NCPU):
            v.cov["transitions"] += r.generated
            v.cov["states"] += r.distinct
            drift += r.out.count('<<"DRIFT"')
            if r.ok:
                nobs += max(0, r.distinct - 1)
                continue
            if not r.violated:
                raise ToolError(f"trace validation of {f} failed in the tooling: {r.out[-3000:]}")
            if len(v.violations) >= 5:
                continue
            st = r.alias_state()
            m = re.search(r"\bline = (\d+)", st)
            line = int(m.group(1)) if m else 0
            m = re.search(r'\bwhy = "([^"]*)"', st)
            why = m.group(1) if m else r.violated
            ev = read_ndjson(f)[line - 1] if line else {}
            if "runs" in ev:
                ev = {k: (x if k != "runs" else x[:3]) for k, x in ev.items()}
            ev_s = json.dumps(ev)
            payload = {"property": prop, "invariant": r.violated, "why": why, "trace_file": f, "line": line,
                       "seed": seed(), "observation": json.loads(ev_s) if len(ev_s) < 20000 else {"too_long": len(ev_s)}}
            txt = bytes(ev.get("buf", [])[:80]).decode("latin1").encode("unicode_escape").decode() if "buf" in ev else str(ev.get("frames"))[:200]
            v.violation(f"{why}: {txt} [line {line} of {os.path.basename(f)}]", save_replay(prop, payload))
        if drift:
            v.cov["model_drift"] = True
            v.cov["drift_events"] = drift
        v.cov["traces_validated_against_impl"] = nobs
        v.cov["inputs_generated_by_tlc"] = len(inputs)
        v.cov["driver"] = {"observations": sum(s.get("runs", 0) for s in sums), "fuzz_inputs": fuzz}
        v.cov["exhaustive"] = False
        v.cov["rule"] = ("C07: every valid-prefix-closed byte string up to the bound over {+ - : $ * 0 1 2 9 CR LF a} printed by "
                         "TLC, each also padded to cursor offsets 1/17/18/19/40, digit stretches (i64 bounds, 19-39 digits, both "
                         "signs, 5 terminators, 5 offsets), nesting 1..10^6, absurd lengths, seeded fuzz; "
                         "C08: every stream of <= 2 frames of the bounded writable frame set plus streams with 8-20 kB payloads, "
                         "written by the real write_frame and read back under all-at-once / bytewise / cuts / random "
                         "segmentations and end-of-stream positions")
        v.cov["samples"] = inputs[:2] + inputs[len(inputs) // 2: len(inputs) // 2 + 2]
        v.assumptions += [
            "bounded-exhaustive over an abstract 12-byte alphabet and short lengths plus directed stretches; not all byte strings",
            "UTF-8 validity is modelled as 'all bytes < 128' (the high bytes used are 0x80 and 0xFF, never valid alone)",
            "a process death (stack overflow, allocation failure) inside check/parse is observed through the pending-note mechanism",
        ]
    finally:
        if not v.violations:
            shutil.rmtree(work, ignore_errors=True)
    return v.finish()


def replay(prop, path):
    rp = json.load(open(path))
    v = Verdict(prop, "quick")
    build_harness()
    tag = f"replay-{prop}-{os.getpid()}"
    work = os.path.join(OUT, "work", tag)
    os.makedirs(work, exist_ok=True)
    ob = rp.get("observation", {})
    ifile = os.path.join(work, "inputs.jsonl")
    mode = "bytes" if "buf" in ob else "conn"
    with open(ifile, "w") as f:
        f.write(json.dumps({"buf": ob.get("buf", [])} if mode == "bytes" else {"frames": ob.get("frames", [])}) + "\n")
    pre = os.path.join(work, mode)
    files, sums, aborts = run_shards("respdrive", [mode, ifile, pre, "--seed", str(rp.get("seed", 1)), "--fuzz", "0"], pre, 1,
                                     synth=known_abort_synth)
    cfg = write_cfg(f"traceresp_{tag}.cfg", TRACE_CFG.format(invs=" ".join(PROPS[prop]["trace"])))
    r = tlc("TraceResp.tla", cfg, workers=1, env={"TRACE": files[0], "JAVA_TOOL_OPTIONS": JAVA_OPTS_TRACE}, timeout=600)
    v.add_tlc("replay", r)
    if r.violated:
        v.violation(f"{r.violated} reproduced", path)
    v.cov["traces_validated_against_impl"] = 1
    v.cov["samples"] = [ob]
    return v.finish()
