"""Checks of the network server (C06 C10 C11 C15 C16).
   1. TLC checks Server.tla (listener / permits / handlers / shutdown) on bounded instances:
      safety invariants and the liveness property ShutdownTerminates under fairness;
   2. netdrive plays scripted clients over real TCP against the real server run in-process:
      TLC-generated request sequences under delivery disciplines (C06), TLC-generated malformed
      byte strings and command-level malformations next to a control connection (C10), the
      connection-limit script for every way a connection can end (C15), the shutdown signal
      against every connection state (C16), concurrent clients with injected delays at the
      store's linearization points while merges run (C11);
   3. TLC judges the recorded scenarios: TraceNet.tla (expected reply BYTES from the map model
      and Resp!Encode; permit accounting; stream completeness) and TraceLin.tla (search for a
      linearization)."""
import json, os, random, re, shutil
from common import *
import resp as resp_mod

PROPS = {
    "C06": dict(mode="kv", trace=["C06_RepliesAsTheMap"]),
    "C10": dict(mode="hostile", trace=["C10_HostileIsLocal"]),
    "C15": dict(mode="limit", trace=["C15_ConnectionLimit"]),
    "C16": dict(mode="shutdown", trace=["C16_GracefulShutdown"]),
    "C11": dict(mode="lin", trace=[]),
}

SERVER_CFG = """SPECIFICATION Spec
CONSTANTS
  Conns = {conns}
  MaxConn = {maxconn}
  Keys = {{"k"}}
  Vals = {vals}
  MaxReq = {maxreq}
  Hostile = {hostile}
INVARIANTS TypeOK ServingAtMostMax PermitConservation RepliesInOrder RepliedImpliesApplied NoTornReply StoreIsAppliedCommands ErrorIsLocal
PROPERTY ShutdownTerminates PermitsRefinement
CHECK_DEADLOCK FALSE
"""
TRACE_CFG = """SPECIFICATION Spec
INVARIANTS {invs}
POSTCONDITION Accepted
ALIAS ErrAlias
CHECK_DEADLOCK FALSE
"""
LIN_CFG = """SPECIFICATION Spec
POSTCONDITION Accepted
CHECK_DEADLOCK FALSE
"""


def model_check(v, prop, tier):
    q = tier == "quick"
    if prop in ("C15", "C10"):
        inst = dict(conns='{"c1", "c2", "c3"}', maxconn=2, vals='{"a"}', maxreq=1, hostile='{"c3"}') if not q else \
               dict(conns='{"c1", "c2"}', maxconn=1, vals='{"a"}', maxreq=1, hostile='{"c2"}')
    else:
        inst = dict(conns='{"c1", "c2"}', maxconn=1, vals='{"a", "b"}', maxreq=2, hostile='{"c2"}') if not q else \
               dict(conns='{"c1", "c2"}', maxconn=2, vals='{"a"}', maxreq=1, hostile='{"c2"}')
    cfg = write_cfg(f"server_{prop}_{os.getpid()}.cfg", SERVER_CFG.format(**inst))
    r = tlc("Server.tla", cfg, workers=NCPU, timeout=3000, xmx="16g", metatag=f"srv-{prop}-{os.getpid()}")
    v.add_tlc(f"Server.tla {inst['conns']} MaxConn={inst['maxconn']} MaxReq={inst['maxreq']} (safety + ShutdownTerminates)", r)
    if not r.ok:
        raise ToolError(f"Server.tla violates {r.violated or r.eval_error}\n{r.out[-2500:]}")
    if prop == "C15":
        permits_induction(v, tier)


def apalache(args, timeout=1500):
    """Run apalache-mc check on a module of spec/; returns (ok, violated, wall, tail)."""
    rd = os.path.join(OUT, "apalache", f"{os.getpid()}-{int(time.time() * 1000) % 10**8}")
    os.makedirs(rd, exist_ok=True)
    t0 = time.time()
    p = run(["timeout", str(timeout), "apalache-mc", "check", f"--out-dir={rd}", f"--run-dir={rd}/run"] + args, cwd=SPEC, timeout=timeout + 30)
    shutil.rmtree(rd, ignore_errors=True)
    if p.returncode == 124:
        raise ToolError(f"apalache timed out: {args}")
    ok = "The outcome is: NoError" in p.stdout
    violated = "The outcome is: Error" in p.stdout and "invariant" in p.stdout and "violated" in p.stdout
    if not ok and not violated:
        raise ToolError(f"apalache failed: {args}\n{p.stdout[-2500:]}")
    return ok, violated, time.time() - t0, p.stdout[-600:]


def permits_induction(v, tier):
    """C15 beyond the bounded instances: the slot accounting of ServerPermits.tla (which Server.tla refines: PROPERTY
    PermitsRefinement above) has an INDUCTIVE invariant.  Apalache checks Init => IndInv, IndInv /\\ [Next]_vars =>
    IndInv' (symbolically, for every state satisfying IndInv - histories of any length) and IndInv => Safety, for
    every limit 1..|Conns|; with a listener that returns its permit when accept fails the step must fail."""
    ci = "ConstInit4" if tier == "quick" else "ConstInit6"
    runs = []
    for label, args, expect_ok in (
            ("Init => IndInv", [f"--cinit={ci}", "--init=Init", "--inv=IndInv", "--length=0"], True),
            ("IndInv /\\ [Next]_vars => IndInv'", [f"--cinit={ci}", "--init=IndInit", "--inv=IndInv", "--length=1"], True),
            ("IndInv => ServingAtMostMax /\\ NoLeakWhileRunning", [f"--cinit={ci}", "--init=IndInit", "--inv=Safety", "--length=0"], True),
            ("vacuity guard: with AcceptFailsReturnsPermit the induction step fails", [f"--cinit={ci}", "--init=IndInit", "--next=NextBroken", "--inv=IndInv", "--length=1"], False)):
        ok, violated, wall, tail = apalache(args + ["ServerPermits.tla"])
        runs.append({"obligation": label, "outcome": "NoError" if ok else "invariant violated", "wall_s": round(wall, 1)})
        if ok != expect_ok:
            raise ToolError(f"ServerPermits.tla: '{label}' gave {'NoError' if ok else 'a violation'}\n{tail}")
    v.cov["apalache_inductive_invariant"] = {"module": "ServerPermits.tla", "constants": ci + " (MaxConn in 1..|Conns|)", "obligations": runs}


def sym_bytes(rnd):
    """Instantiation of the symbolic keys/values of Gen_Kv."""
    keys = {"k1": list("k".encode()), "k2": list("é✓ key".encode())}
    vals = {"a": [13, 10, 0, 255, 36, 45, 49, 13, 10], "b": []}
    if rnd.random() < 0.5:
        vals["b"] = [rnd.choice([0, 10, 13, 255, 97]) for _ in range(rnd.randint(1, 12))]
    return keys, vals


def inputs_for(v, prop, tier, tag):
    rnd = random.Random(seed() * 31 + 7)
    q = tier == "quick"
    items = []
    if prop == "C06":
        maxlen = 2 if q else 3
        cfg = write_cfg(f"genkv_{tag}.cfg", f"SPECIFICATION Spec\nCONSTANT MaxLen = {maxlen}\nINVARIANT Emit\nCHECK_DEADLOCK FALSE\n")
        r = tlc("Gen_Kv.tla", cfg, workers=4, timeout=1200, metatag=f"genkv-{tag}")
        v.add_tlc(f"Gen_Kv: every request sequence of length {maxlen} (11 requests per step)", r)
        keys, vals = sym_bytes(rnd)
        for m in re.finditer(r'<<"REQS", "(.*)">>', r.out):
            d = json.loads(m.group(1).encode().decode("unicode_escape"))
            reqs = []
            for x in d["reqs"]:
                if x["op"] == "set":
                    reqs.append({"op": "set", "k": keys[x["k"]], "v": vals[x["v"]]})
                elif x["op"] == "get":
                    reqs.append({"op": "get", "k": keys[x["k"]]})
                else:
                    reqs.append({"op": "del", "ks": [keys[k] for k in x["ks"]]})
            items.append({"reqs": reqs})
        # longer random sequences, some with values above the 8 KiB buffers
        for i in range(40 if q else 600):
            ks = [list(f"key{j}".encode()) for j in range(3)]
            reqs = []
            for _ in range(rnd.randint(3, 8)):
                x = rnd.random()
                if x < 0.45:
                    n = rnd.choice([0, 1, 5, 40, 300, 8185, 8192, 9000, 20000]) if i % 4 == 0 else rnd.choice([0, 1, 5, 40])
                    reqs.append({"op": "set", "k": rnd.choice(ks), "v": [rnd.choice([13, 10, 0, 255, 120, 121]) for _ in range(n)]})
                elif x < 0.8:
                    reqs.append({"op": "get", "k": rnd.choice(ks)})
                else:
                    reqs.append({"op": "del", "ks": [rnd.choice(ks) for _ in range(rnd.randint(1, 3))]})
            items.append({"reqs": reqs})
        # DEL naming many keys (every second one stored): the count, and the requests pipelined behind it
        for nk in (127, 128, 129, 200) if q else (64, 127, 128, 129, 200, 1000, 5000):
            ks = [list(f"key{j:04d}".encode()) for j in range(nk)]
            reqs = [{"op": "set", "k": k, "v": [118]} for k in ks[::2][:40]]
            reqs += [{"op": "del", "ks": ks}, {"op": "get", "k": ks[0]}, {"op": "del", "ks": ks}]
            items.append({"reqs": reqs})
    elif prop == "C10":
        maxlen = 3 if q else 4
        cfg = write_cfg(f"respb_h_{tag}.cfg", resp_mod.BYTES_CFG.format(alpha=resp_mod.ALPHABET, maxlen=maxlen, emit="TRUE"))
        r = tlc("MC_RespBytes.tla", cfg, workers=NCPU, timeout=1200, metatag=f"resph-{tag}")
        v.add_tlc(f"MC_RespBytes generation <= {maxlen} bytes (hostile streams)", r)
        for m in re.finditer(r'<<"RESP", "(.*)">>', r.out):
            d = json.loads(m.group(1).encode().decode("unicode_escape"))
            if d["buf"]:
                items.append({"tag": "tlc-" + d["check"]["kind"], "stream": d["buf"]})
        B = lambda s: list(s)
        def cmdb(*parts):
            out = f"*{len(parts)}\r\n".encode()
            for p in parts:
                out += f"${len(p)}\r\n".encode() + p + b"\r\n"
            return out
        directed = {
            "unknown-verb": cmdb(b"NOPE", b"x"),
            # verbs that merely begin with, end with or contain a real one, with arguments of the right shape
            "verb-setnx": cmdb(b"SETNX", b"victim", b"x"), "verb-delete": cmdb(b"DELETE", b"victim"), "verb-getset": cmdb(b"GETSET", b"victim", b"x"),
            "verb-mset": cmdb(b"MSET", b"victim", b"x"), "verb-unset": cmdb(b"UNSET", b"victim", b"x"), "verb-hdel": cmdb(b"HDEL", b"victim"),
            "verb-set-space": cmdb(b"SET ", b"victim", b"x"), "verb-se": cmdb(b"SE", b"victim", b"x"), "verb-empty": cmdb(b"", b"victim", b"x"),
            "verb-set-nul": cmdb(b"SET\x00", b"victim", b"x"), "verb-del-crlf": cmdb(b"DEL\r\n", b"victim"),
            "lowercase-verb": cmdb(b"set", b"victim", b"x"),
            "set-arity-2": cmdb(b"SET", b"victim"),
            "set-arity-4": cmdb(b"SET", b"victim", b"x", b"y"),
            "get-arity-3": cmdb(b"GET", b"victim", b"ctl"),
            "del-arity-1": cmdb(b"DEL"),
            "del-good-then-nonutf8": cmdb(b"DEL", b"victim", b"\xff\xfe"),
            "del-two-good-then-nonutf8": cmdb(b"DEL", b"victim", b"ctl", b"\xff"),
            "del-good-nonutf8-good": cmdb(b"DEL", b"victim", b"\x80", b"ctl"),
            "del-good-then-int": b"*3\r\n$3\r\nDEL\r\n$6\r\nvictim\r\n:7\r\n",
            "del-good-then-array": b"*3\r\n$3\r\nDEL\r\n$6\r\nvictim\r\n*1\r\n$1\r\nx\r\n",
            "set-nonutf8-key": cmdb(b"SET", b"\xff\xfe", b"x"),
            "set-null-value": b"*3\r\n$3\r\nSET\r\n$6\r\nvictim\r\n$-1\r\n",
            "non-array-bulk": b"$3\r\nGET\r\n",
            "non-array-simple": b"+GET victim\r\n",
            "nested-array": b"*1\r\n*3\r\n$3\r\nSET\r\n$6\r\nvictim\r\n$1\r\nx\r\n",
            "empty-array": b"*0\r\n",
            "negative-array": b"*-1\r\n",
            "verb-as-int": b"*2\r\n:1\r\n$6\r\nvictim\r\n",
            "truncated-set": cmdb(b"SET", b"victim", b"x")[:-3],
            "truncated-then-more": cmdb(b"SET", b"victim", b"x")[:-7] + b"\xff" + cmdb(b"DEL", b"victim")[:-6],
            "lenient-bulk-terminator": cmdb(b"SET", b"victim", b"x")[:-3] + cmdb(b"DEL", b"victim")[:-6],
            "sign-only": b":-", "star-sign": b"*-", "dollar-plus": b"$+", "nested-sign": b"*1\r\n:-",
            "20-digits-late": b"*2\r\n$3\r\nGET\r\n$99999999999999999999\r\n",
            "overflow-array": b"*99999999999999999999\r\n",
            "huge-array": b"*1000000000000\r\n",
            "max-array": b"*9223372036854775807\r\n",
            "huge-bulk": b"$9223372036854775807\r\nab",
            "lf-in-line": b"+OK\n\r\n",
            "binary-junk": bytes(range(256)),
        }
        for t, s in directed.items():
            items.append({"tag": t, "stream": B(s)})
        # long command names / keys with multi-byte characters (and bytes that are no UTF-8) at every offset: whatever
        # the server does with rejected input (error texts, logging, previews) happens at a byte offset somewhere
        wide = "é✓😀".encode()
        for p in range(1, 72):
            name = b"x" * p + wide + b"xxxx"
            items.append({"tag": f"long-verb-utf8-{p}", "stream": B(cmdb(name, b"victim", b"x") if p % 3 else cmdb(name))})
            if p % 2:
                items.append({"tag": f"long-verb-bin-{p}", "stream": B(cmdb(b"y" * p + b"\xff\xfe\xf0\x9f", b"victim"))})
            if p % 4 == 1:
                items.append({"tag": f"long-key-utf8-{p}", "stream": B(cmdb(b"GET", b"k" * p + wide, b"extra"))})
        for k, c in ((129, True), (1000, True), (100000, True), (200000, False), (1000000, True)):
            items.append({"tag": f"nest-{k}", "nest": k, "complete": c})
        items.append({"tag": "rst-before-accept", "special": "rst-backlog", "stream": []})
        # the handler task of the hostile connection panics (three times: a slot lost per panic shows at once)
        for n in range(3):
            items.append({"tag": f"handler-panic-{n}", "special": "handler-panic", "stream": B(b"*1\r\n$4\r\nPING\r\n")})
        items.append({"tag": "rst-before-accept-2", "special": "rst-backlog", "stream": B(b"*1\r\n")})
        # floods: one unit repeated up to 1 MiB (4 MiB in the thorough tier)
        total = (1 << 20) if q else (1 << 22)
        for name, unit in (("crlf", b"\r\n"), ("cr", b"\r"), ("lf", b"\n"), ("plus", b"+"), ("minus", b"-"), ("colon", b":"), ("dollar", b"$"),
                           ("star", b"*"), ("zero", b"0"), ("nul", b"\x00"), ("ff", b"\xff"), ("space", b" "), ("int", b":1\r\n"),
                           ("empty-bulk", b"$0\r\n\r\n"), ("empty-simple", b"+\r\n"), ("null", b"$-1\r\n"), ("empty-array", b"*0\r\n"),
                           ("null-array", b"*-1\r\n"), ("wide-nest", b"*2\r\n"), ("ping", b"*1\r\n$4\r\nPING\r\n")):
            items.append({"tag": "flood-" + name, "repeat": {"unit": B(unit), "count": total // len(unit)}})
        rnd.shuffle(items)
    elif prop == "C15":
        endings = ["close", "half-frame", "half-frame-open", "malformed", "garbage", "panic", "handler-panic", "store-error", "rst-in-backlog",
                   "accept-error", "rejected-plus-half", "half-frame-utf8", "garbage-binary"]
        for mx in (1, 2, 3):
            for e in endings:
                items.append({"max": mx, "endings": [e]})
                if e in ("half-frame-utf8", "close"):
                    # several in a row: a slot that is lost once per connection shows after max of them
                    items.append({"max": mx, "endings": [e] * (mx + 2)})
            items.append({"max": mx, "endings": endings})
            items.append({"max": mx, "endings": [rnd.choice(endings) for _ in range(6 if q else 14)]})
    elif prop == "C16":
        sts = ["idle", "mid-frame", "pipelined-partial", "pipelined-partial-big", "mid-command", "mid-command-long", "writing-reply"]
        for s in sts:
            items.append({"states": [s]})
            items.append({"states": [s, s]})
            items.append({"states": [s], "max": 1})
        for a in sts:
            for b in sts:
                if a < b:
                    items.append({"states": [a, b]})
                    # exactly max_connections clients: the listener is waiting for a permit at the signal
                    items.append({"states": [a, b], "max": 2})
        items.append({"states": sts})
        items.append({"states": sts + sts})
        if not q:
            items = items * 4
    else:  # C11
        # a client's SET / DEL fails in the store (the writer held at the failing call) while another client reads the key
        for op in ("del", "set"):
            items.append({"kind": "fault-vs-get", "op": op, "nth": 0})
            items.append({"kind": "fault-vs-get", "op": op, "nth": 1, "max_file": 0})
        for i in range(16 if q else 160):
            items.append({"clients": rnd.choice([2, 3, 4]), "ops": rnd.choice([5, 6, 8]), "keys": rnd.choice([1, 1, 2]),
                          "windows": 5 if q else 8, "delay_us": rnd.choice([200, 600, 1500]), "merger": i % 3 != 0,
                          "exact": i % 4 == 1, "clock": i % 4 == 2})
    return items


def synth_abort(note, evs, how):
    ev = dict(note)
    ev.pop("phase", None)
    ev["abort"] = how
    kind = ev.get("ev")
    if kind == "kv":
        ev.update({"recv": [], "ending": "abort", "store": [], "nsegs": 0, "sent_segments": 0})
    elif kind == "hostile":
        ev.update({"control": [], "fresh_ok": False, "store": [], "ck": [], "cv": [], "hostile_recv": [], "hostile_end": "abort"})
        ev.setdefault("stream", [])
        ev.setdefault("len", 0)
        ev.setdefault("tag", "?")
    elif kind == "kvbig":
        ev.update({"requests": 6, "exact": 0, "received": 0, "expected": -1, "ending": "abort", "store_ok": False})
    elif kind == "limit":
        ev.update({"steps": [], "hooks": []})
    elif kind == "shutdown":
        ev.update({"returned": False, "clients": [], "store": [], "hooks": []})
    elif kind == "lin":
        ev.update({"run": -1, "window": -1, "clients": 0, "init": [], "ops": [{"c": 0, "op": "get", "k": "-", "v": "-", "inv": 0, "ret": 1, "res": "server process died", "ending": "ok"}]})
    return ev


def check(prop, tier):
    v = Verdict(prop, tier)
    tag = f"{prop}-{os.getpid()}"
    work = os.path.join(OUT, "work", tag)
    os.makedirs(work, exist_ok=True)
    mode = PROPS[prop]["mode"]
    try:
        build_harness()
        model_check(v, prop, tier)
        items = inputs_for(v, prop, tier, tag)
        ifile = os.path.join(work, "inputs.jsonl")
        with open(ifile, "w") as f:
            for x in items:
                f.write(json.dumps(x) + "\n")
        pre = os.path.join(work, mode)
        nshards = min(NCPU, max(1, len(items))) if mode not in ("shutdown", "limit", "lin") else min(8, len(items))
        files, sums, aborts = run_shards("netdrive", [mode, ifile, pre, "--seed", str(seed())], pre, nshards, synth=synth_abort)
        if aborts:
            v.cov["process_deaths_in_code_under_test"] = aborts[:10]
        nscen = 0
        if mode == "lin":
            cfg = write_cfg(f"tracelin_{tag}.cfg", LIN_CFG)

            def one(f):
                return f, tlc("TraceLin.tla", cfg, workers=1, env={"TRACE": f, "JAVA_TOOL_OPTIONS": JAVA_OPTS_TRACE},
                              timeout=3000, xmx="4g", metatag=f"trl-{os.path.basename(f)}-{os.getpid()}")
            for f, r in parallel(one, files, n=NCPU):
                v.cov["transitions"] += r.generated
                v.cov["states"] += r.distinct
                evs = read_ndjson(f)
                nscen += len(evs) - 1
                if r.ok:
                    continue
                m = re.search(r'"NOT LINEARIZABLE: window at line", (\d+)', r.out)
                if not m:
                    raise ToolError(f"linearizability search on {f} failed in the tooling: {r.out[-2500:]}")
                if len(v.violations) >= 5:
                    continue
                line = int(m.group(1))
                w = evs[line - 1]
                payload = {"property": prop, "why": "no linearization of this window exists", "trace_file": f, "line": line,
                           "seed": seed(), "window": w}
                v.violation(f"history window (run {w.get('run')}, window {w.get('window')}, {len(w.get('ops', []))} operations of "
                            f"{w.get('clients')} clients) is not linearizable [line {line} of {os.path.basename(f)}]", save_replay(prop, payload))
        else:
            cfg = write_cfg(f"tracenet_{tag}.cfg", TRACE_CFG.format(invs=" ".join(PROPS[prop]["trace"])))

            def one(f):
                return f, tlc("TraceNet.tla", cfg, workers=1, env={"TRACE": f, "JAVA_TOOL_OPTIONS": JAVA_OPTS_TRACE},
                              timeout=3000, xmx="4g", metatag=f"trn-{prop}-{os.path.basename(f)}-{os.getpid()}")
            for f, r in parallel(one, files, n=NCPU):
                v.cov["transitions"] += r.generated
                v.cov["states"] += r.distinct
                dl = re.findall(r'<<"DRIFT", (\d+), "([^"]*)">>', r.out)
                if dl:
                    v.cov["model_drift"] = True
                    v.cov.setdefault("drift_events", []).extend({"file": os.path.basename(f), "line": int(a), "why": b} for a, b in dl[:3])
                    log(f"model drift (not an alarm): {len(dl)} scenarios in {os.path.basename(f)}: {dl[0][1]}")
                if r.ok:
                    nscen += max(0, r.distinct - 1)
                    continue
                if not r.violated:
                    raise ToolError(f"trace validation of {f} failed in the tooling: {r.out[-3000:]}")
                if len(v.violations) >= 5:
                    continue
                st = r.alias_state()
                m = re.search(r"\bline = (\d+)", st)
                line = int(m.group(1)) if m else 0
                m = re.search(r'\bwhy = "([^"]*)"', st)
                why = m.group(1) if m else r.violated
                ev = read_ndjson(f)[line - 1] if line else {}
                s = json.dumps(ev)
                payload = {"property": prop, "invariant": r.violated, "why": why, "trace_file": f, "line": line, "seed": seed(),
                           "scenario": ev if len(s) < 30000 else {k: x for k, x in ev.items() if len(json.dumps(x)) < 2000}}
                brief = {k: ev[k] for k in ("how", "tag", "max", "endings", "states") if k in ev}
                v.violation(f"{why} {json.dumps(brief)[:300]} [line {line} of {os.path.basename(f)}]", save_replay(prop, payload))
        if mode in ("limit", "shutdown") and not v.violations:
            # mechanism level: the merged timeline of client actions and server hook events must be a
            # behaviour of Server.tla (TraceServer.tla); a rejection is drift, not an alarm
            mcfg = write_cfg(f"traceserver_{tag}.cfg", """SPECIFICATION TSpec
CONSTANTS
  Conns <- TrConns
  MaxConn = 1
  Keys = {"k"}
  Vals = {"a"}
  MaxReq = 1000
  Hostile <- TrConns
POSTCONDITION Accepted
CHECK_DEADLOCK FALSE
""")

            def mech(f):
                try:
                    return f, tlc("TraceServer.tla", mcfg, workers=1, env={"TRACE": f, "JAVA_TOOL_OPTIONS": JAVA_OPTS_TRACE},
                                  timeout=300, xmx="3g", metatag=f"trsv-{prop}-{os.path.basename(f)}-{os.getpid()}")
                except ToolError as e:
                    return f, str(e)      # (mechanism level: a search that does not finish is drift)
            okn, drift = 0, []
            for f, r in parallel(mech, files, n=NCPU):
                if isinstance(r, str):
                    drift.append({"file": os.path.basename(f), "first_unexplained": "no explanation found in time: " + r[:120]})
                    continue
                v.cov["transitions"] += r.generated
                v.cov["states"] += r.distinct
                if r.ok:
                    okn += 1
                    continue
                m = re.search(r"SERVER MECHANISM DRIFT.*", r.out, re.S)
                if not m and not r.postcondition_failed:
                    raise ToolError(f"server mechanism validation of {f} failed in the tooling: {r.out[-2500:]}")
                drift.append({"file": os.path.basename(f), "first_unexplained": " ".join((m.group(0) if m else "?").split())[:400]})
            v.cov["mechanism_traces_accepted"] = okn
            if drift:
                v.cov["model_drift"] = True
                v.cov["mechanism_drift"] = drift[:5]
                log(f"model drift: {len(drift)} trace files are not behaviours of Server.tla step by step (not an alarm): {drift[0]}")
        v.cov["traces_validated_against_impl"] = nscen
        v.cov["scenario_inputs"] = len(items)
        v.cov["driver"] = {"scenarios_run": sum(s.get("runs", 0) for s in sums)}
        v.cov["exhaustive"] = False
        v.cov["rule"] = {
            "kv": "every request sequence of the bounded instance generated by TLC (Gen_Kv) plus random longer sequences with values up to 20 kB, each "
                  "under: one request at a time, all pipelined in one segment, one byte per segment (the server's read is awaited between segments), "
                  "cuts at fixed and random positions incl. between the final CR and LF (also with the client waiting for the replies to the complete "
                  "requests before sending the rest); received BYTES compared with Resp!Encode of the map model; the same requests also through the "
                  "repository's own net::Client (differences there are client drift, no listed property covers the client)",
            "hostile": "every byte string up to the bound printed by TLC from MC_RespBytes, 30 command-level malformations (arity, verbs, non-UTF-8, "
                       "nested/empty/negative arrays, truncations, a DEL naming a stored key before a bad argument), nesting up to 10^6, absurd lengths; "
                       "a control connection stores and reads values before/after each, a fresh connection must be served, the store is read back",
            "limit": "max_connections 1..3 x eight ways a connection can end (clean close, half frame, half frame + RST, malformed command, garbage, "
                     "panic on the blocking pool, storage error, RST while waiting in the backlog) singly and in sequences: an extra client must wait, "
                     "must be served once a slot frees, one more must wait again; permit hook events are replayed",
            "shutdown": "the signal fires with clients idle / mid-frame / after a pipelined request plus a partial one / while a command executes on the "
                        "blocking pool / with a 6 MB reply not yet read, singly, pairwise and all together; run() must return within 5 s, every client "
                        "stream must be complete replies then end-of-stream, acknowledged SETs must be in the store",
            "lin": "2-4 concurrent clients on separate connections, SET/GET/DEL on 1-2 keys, unique values per writer, random delays injected at the "
                   "store's publication points through the verif hook, a thread merging continuously, max_file_size 90; quiescent windows judged by TLC",
        }[mode]
        v.cov["samples"] = [x if len(json.dumps(x)) < 1500 else {"reqs": "(long)"} for x in items[:3]]
        v.assumptions += [
            "timing facts are decided with generous bounds (a reply that must come: 3 s; one that must not: 150 ms; run() returning: 5 s)",
            "clients drain their sockets after the shutdown signal (the assumption under which C16 demands termination)",
            "TCP segments are what the server's read sees because the driver waits for the server's conn.read hook between segments",
        ]
    finally:
        if not v.violations:
            shutil.rmtree(work, ignore_errors=True)
    return v.finish()


def replay(prop, path):
    rp = json.load(open(path))
    v = Verdict(prop, "quick")
    build_harness()
    mode = PROPS[prop]["mode"]
    tag = f"replay-{prop}-{os.getpid()}"
    work = os.path.join(OUT, "work", tag)
    os.makedirs(work, exist_ok=True)
    sc = rp.get("scenario") or {}
    if mode == "lin":
        # concurrency is not replayable step by step: re-judge the recorded window
        f = os.path.join(work, "w.ndjson")
        with open(f, "w") as fh:
            fh.write(json.dumps({"ev": "header"}) + "\n" + json.dumps(rp["window"]) + "\n")
        r = tlc("TraceLin.tla", write_cfg(f"tracelin_{tag}.cfg", LIN_CFG), workers=1, env={"TRACE": f, "JAVA_TOOL_OPTIONS": JAVA_OPTS_TRACE}, timeout=600)
        v.add_tlc("replay", r)
        if not r.ok:
            v.violation("recorded window is not linearizable", path)
    else:
        inp = {k: sc[k] for k in ("reqs", "tag", "stream", "nest", "complete", "max", "endings", "states") if k in sc}
        ifile = os.path.join(work, "inputs.jsonl")
        open(ifile, "w").write(json.dumps(inp) + "\n")
        pre = os.path.join(work, mode)
        files, sums, ab = run_shards("netdrive", [mode, ifile, pre, "--seed", str(rp.get("seed", 1))], pre, 1, synth=synth_abort)
        cfg = write_cfg(f"tracenet_{tag}.cfg", TRACE_CFG.format(invs=" ".join(PROPS[prop]["trace"])))
        r = tlc("TraceNet.tla", cfg, workers=1, env={"TRACE": files[0], "JAVA_TOOL_OPTIONS": JAVA_OPTS_TRACE}, timeout=600)
        v.add_tlc("replay", r)
        if r.violated:
            v.violation(f"{r.violated} reproduced", path)
    v.cov["traces_validated_against_impl"] = 1
    v.cov["samples"] = [sc or rp.get("window", {})]
    return v.finish()
