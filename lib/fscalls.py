"""Checks at the level of file-system calls (C03 crash, C09 power loss, C14 append-only
   discipline, C20 injected faults).
   1. TLC checks the property on Bitcask.tla, whose steps are the individual system calls
      (Crash action in every state; PowerLossSafe quantifies over every per-file cut);
   2. TLC-generated behaviours (and random workloads with entries around/above the 8 KiB
      write buffer) are run on the real store under the in-process shim by fsdrive, which
      probes EVERY boundary between recorded mutating calls (kill image / cut images) or
      fails each call once;
   3. TLC validates the recorded call sequences and probe results against TraceFs.tla."""
import json, os, random, re, shutil, time
from common import *
import storage

PROPS = {
    "C03": dict(mode="crash", trace=["C03_CrashSafe"]),
    "C09": dict(mode="power", trace=["C09_PowerLossSafe"]),
    "C14": dict(mode="crash", trace=["C14_FsDiscipline"]),
    "C20": dict(mode="fault", trace=["C20_FaultContained"]),
}
# used by lib/storage.py for C05 (a merge pass that FAILS also leaves every key reading as before); not in
# PROPS, which says which properties this module's check() decides
EXTRA = {"C05": dict(mode="fault", trace=["C05_FailedMergeKeeps"]),
         # C12 in histories with a kill: the aftermath of every crash probe ends with a restart from a copy without hint files
         "C12": dict(mode="crash", trace=["C12_AfterCrash"]),
         # properties about what the store reads / keeps / does to its files, judged on the runs with ONE failed call too
         "C01f": dict(mode="fault", trace=["C01_UnderFaults"]), "C02f": dict(mode="fault", trace=["C02_UnderFaults"]),
         # C05 on runs with a failed call that contain a merge: the reads of the running process and of the restart
         "C05f": dict(mode="fault", trace=["C01_UnderFaults", "C02_UnderFaults"]),
         "C12f": dict(mode="fault", trace=["C12_AfterCrash"]), "C13f": dict(mode="fault", trace=["C13_AfterFault"]),
         "C13": dict(mode="crash", trace=["C13_AfterCrash"]), "C13p": dict(mode="power", trace=["C13_AfterCrash"]),
         "C14f": dict(mode="fault", trace=["C14_FsDiscipline"])}

TRACE_TMPL = """SPECIFICATION Spec
INVARIANTS
  {invs}
POSTCONDITION Accepted
ALIAS ErrAlias
CHECK_DEADLOCK FALSE
"""


def model_check(v, prop, tier):
    q = tier == "quick"
    nb = 3 if q else 4
    if prop == "C03":
        plans = [("MC_Seq + Crash (<=2 crashes), ops<=3, 16 configs", ["TypeOK", "CrashSafe"], 3 if q else 4, "MCConfigs", 2, ()),
                 (f"MC_Seq big value (9000 B: two-call appends, two-piece merge copies) + Crash, ops<={nb}, 9 configs", ["TypeOK", "CrashSafe"], nb, "MCConfigsBig", 1, ())]
    elif prop == "C09":
        plans = [("MC_Seq sync=always, every per-file cut, ops<=4", ["TypeOK", "PowerLossSafe"], 4 if q else 5, "MCConfigsSync", 0, ()),
                 (f"MC_Seq big value (9000 B) sync=always, every per-file cut, ops<={nb}", ["TypeOK", "PowerLossSafe"], nb, "MCConfigsBigSync", 0, ())]
    elif prop == "C14":
        plans = [("MC_Seq AppendOnly/IdsOnlyGrow/SizeBound with crashes, ops<=3", ["TypeOK", "SizeBound"], 3 if q else 4, "MCConfigs", 1, ("AppendOnly",)),
                 (f"MC_Seq big value (9000 B) AppendOnly/SizeBound with a crash, ops<={nb}", ["TypeOK", "SizeBound"], nb, "MCConfigsBig", 1, ("AppendOnly",))]
    else:
        # C20: the fault model (one transient failure at any system-call step, the code's error paths)
        cfgtext = f"""SPECIFICATION FSpec
CONSTANTS
  Keys = {storage.K2}
  Vals = {storage.V2}
  KLen <- MCKLen
  VLen <- MCVLen
  Configs <- MCConfigsFault
  MaxOps = 4
  MaxCrashes = 0
  Ops = {storage.ALL_OPS}
  Deviations = {{}}
  MaxFaults = 1
  FDev = {{}}
CONSTRAINT OpsBound
INVARIANTS FaultContainedLive FaultContainedRestart StaysUsable AllFilesKnown
CHECK_DEADLOCK FALSE
"""
        cfg = write_cfg(f"mc_fault_{os.getpid()}.cfg", cfgtext)
        r = tlc("MC_Fault.tla", cfg, workers=NCPU, timeout=3000, xmx="16g", metatag=f"mc-fault-{os.getpid()}")
        v.add_tlc("BitcaskFault.tla: one failure at every system-call step, ops<=4, 18 configs (3 max file sizes x sync none/always x 3 thresholds)", r)
        if not r.ok:
            raise ToolError(f"specification check failed for C20: {r.violated or r.eval_error}\n{r.out[-3000:]}")
        # entries above the write buffer: the failing call can be the first or the second write(2) of an append
        # (header retained by the BufWriter / nothing retained) and any piece of a merge copy
        big = cfgtext.replace(f"Vals = {storage.V2}", f"Vals = {storage.VBIG}").replace("MCConfigsFault", "MCConfigsFaultBig").replace("MaxOps = 4", f"MaxOps = {nb}")
        r = tlc("MC_Fault.tla", write_cfg(f"mc_faultbig_{os.getpid()}.cfg", big), workers=NCPU, timeout=3000, xmx="16g", metatag=f"mc-faultbig-{os.getpid()}")
        v.add_tlc(f"BitcaskFault.tla big value (9000 B): one failure at every system-call step, ops<={nb}, 12 configs", r)
        if not r.ok:
            raise ToolError(f"specification check failed for C20 (big value): {r.violated or r.eval_error}\n{r.out[-3000:]}")
        if not q:
            # beyond the property's quantifier (one fault per run): two transient failures at normal steps
            two = cfgtext.replace("MaxFaults = 1", "MaxFaults = 2").replace("MaxOps = 4", "MaxOps = 3")
            r = tlc("MC_Fault.tla", write_cfg(f"mc_fault2_{os.getpid()}.cfg", two), workers=NCPU, timeout=3000, xmx="16g", metatag=f"mc-fault2-{os.getpid()}")
            v.add_tlc("BitcaskFault.tla: TWO failures (second one at any normal step), ops<=3, 18 configs", r)
            if not r.ok:
                raise ToolError(f"specification check failed for C20 (two faults): {r.violated or r.eval_error}\n{r.out[-3000:]}")
        plans = []
    if prop == "C09":
        # power loss after a failed call: BitcaskFault.tla under sync=always, every per-file cut in every state
        # (one process: a restart forgets which file a failure left unsynced, DESIGN section 8); and the same
        # with the leftover of a failed merge forgotten, which must violate the invariant (vacuity guard)
        tmpl = """SPECIFICATION FSpec
CONSTANTS
  Keys = {keys}
  Vals = {vals}
  KLen <- MCKLen
  VLen <- MCVLen
  Configs <- {configs}
  MaxOps = 4
  MaxCrashes = 0
  Ops = {{"put", "del", "merge"}}
  Deviations = {{}}
  MaxFaults = 1
  FDev = {fdev}
CONSTRAINT OpsBound
INVARIANTS FaultPowerLossSafe
CHECK_DEADLOCK FALSE
"""
        cfg = write_cfg(f"mc_faultpower_{os.getpid()}.cfg", tmpl.format(keys=storage.K2, vals=storage.V2, configs="MCConfigsFaultSync", fdev="{}"))
        r = tlc("MC_Fault.tla", cfg, workers=NCPU, timeout=3000, xmx="16g", metatag=f"mc-faultpower-{os.getpid()}")
        v.add_tlc("BitcaskFault.tla sync=always: power loss (every per-file cut) after one failed call, ops<=4 (put/del/merge), 9 configs", r)
        if not r.ok:
            raise ToolError(f"specification check failed for C09 (FaultPowerLossSafe): {r.violated or r.eval_error}\n{r.out[-3000:]}")
        cfg = write_cfg(f"mc_faultpower_dev_{os.getpid()}.cfg", tmpl.format(keys=storage.K2, vals=storage.V2, configs="MCConfigsFaultSync0",
                                                                             fdev='{"LeftoverForgotten"}'))
        r = tlc("MC_Fault.tla", cfg, workers=NCPU, timeout=3000, xmx="16g", metatag=f"mc-faultpower-dev-{os.getpid()}")
        if r.violated != "FaultPowerLossSafe":
            raise ToolError(f"BitcaskFault.tla with the leftover forgotten should violate FaultPowerLossSafe, got {r.violated or 'no violation'}")
        v.cov.setdefault("deviations_rejected_by_the_model", []).append("LeftoverForgotten -> FaultPowerLossSafe")
    for label, invs, maxops, configs, crashes, props in plans:
        cfg = storage.mc_cfg(f"mc_{prop}_{maxops}_{configs}.cfg", invs, maxops, configs, crashes=crashes, props=props,
                             vals=storage.VBIG if "Big" in configs else storage.V2)
        r = tlc("MC_Seq.tla", cfg, workers=NCPU, timeout=3000, xmx="16g", metatag=f"mc-{prop}-{os.getpid()}")
        v.add_tlc(label, r)
        if not r.ok:
            raise ToolError(f"specification check failed for {prop}: {r.violated or r.eval_error}\n{r.out[-3000:]}")


def gen_behaviours(v, tier, tag, sync, configs=None, maxops=None):
    """TLC-generated client behaviours on the four configurations that exercise rollover and merge."""
    configs = configs or ("MCConfigsSync" if sync == "always" else "MCConfigsFs")
    maxops = maxops or (3 if tier == "quick" else 4)
    cfg = write_cfg(f"gen_{tag}.cfg", storage.MC_TMPL.format(
        spec="GSpec", keys=storage.K2, vals=storage.V2, configs=configs, maxops=maxops, crashes=0,
        ops=storage.ALL_OPS, invs="INVARIANT Emit") + storage.GEN_EXTRA)
    r = tlc("Gen_Seq.tla", cfg, workers=NCPU, timeout=3000, xmx="16g", metatag=f"gen-{tag}")
    v.add_tlc(f"Gen_Seq ops={maxops}, {configs} sync={sync}", r)
    if not r.ok:
        raise ToolError(f"generator failed: {r.out[-2000:]}")
    seen = {}
    for m in re.finditer(r'<<"BEHAVIOUR", "(.*)">>', r.out):
        seen.setdefault(m.group(1).encode().decode("unicode_escape"), None)
    work = os.path.join(OUT, "work", tag)
    os.makedirs(work, exist_ok=True)
    out = os.path.join(work, "behaviours.jsonl")
    with open(out, "w") as f:
        f.write(json.dumps({"keys": {"k1": 1, "k2": 1}, "vals": {"v0": 0, "v1": 1}}) + "\n")
        for n, s in enumerate(seen):
            b = json.loads(s)
            f.write(json.dumps({"id": f"g{n}", "cfg": b["cfg"], "ops": [[o["op"]] + [o[x] for x in ("k", "v") if x in o] for o in b["ops"]]}) + "\n")
    return out, len(seen)


def sample_behaviours(bfile, limit):
    """Keep a seeded sample of at most `limit` behaviours of a behaviours file (in place)."""
    lines = open(bfile).read().splitlines()
    body = lines[1:]
    if len(body) > limit:
        rnd = random.Random(seed() * 31337 + len(body))
        body = rnd.sample(body, limit)
        open(bfile, "w").write("\n".join([lines[0]] + body) + "\n")
    return bfile, len(body)


def random_behaviours(tag, sync, runs, length, scope):
    """Random workloads; scope 'size' uses entries around and above the 8 KiB write buffer."""
    rnd = random.Random(seed() * 7919 + sum(scope.encode()) % 1000)   # (str hashes differ from process to process)
    if scope == "size":
        keys = {"k1": 0, "k2": 3, "k3": 9000}
        vals = {"v0": 0, "v1": 1, "v2": 8140, "v3": 8167, "v4": 8168, "v5": 8192, "v6": 20000}
        maxfiles = [100, 9000, 30000, 1000000]
    else:
        keys = {"k1": 1, "k2": 1, "k3": 0, "k4": 3, "k5": 40}
        vals = {"v0": 0, "v1": 1, "v2": 1, "v3": 10, "v4": 100}
        maxfiles = [0, 26, 27, 60, 100, 300, 1000000]
    big = 1000000
    ths = [(1, 1, big, big), (1, 2, big, 0), (1, 4, big, 0), (1, 1, 40, 0), (1, 2, 60, 30)]
    work = os.path.join(OUT, "work", tag)
    os.makedirs(work, exist_ok=True)
    out = os.path.join(work, f"random-{scope}.jsonl")
    with open(out, "w") as f:
        f.write(json.dumps({"keys": keys, "vals": vals}) + "\n")
        for i in range(runs):
            th = rnd.choice(ths)
            cfg = {"maxFile": rnd.choice(maxfiles), "sync": sync, "thFragNum": th[0], "thFragDen": th[1],
                   "thDead": th[2], "thSmall": th[3]}
            ops = []
            for _ in range(length):
                x = rnd.random()
                if x < 0.5:
                    ops.append(["put", rnd.choice(list(keys)), rnd.choice(list(vals))])
                elif x < 0.72:
                    ops.append(["del", rnd.choice(list(keys))])
                elif x < 0.88:
                    ops.append(["merge"])
                elif x < 0.96 or scope == "size":
                    ops.append(["reopen"])
                else:
                    # the wall clock is stepped (entries carry the time of their write; nothing may depend on it)
                    ops.append(["clock", rnd.choice(["-259200", "-2", "2", "3600", "34560000"])])
            f.write(json.dumps({"id": f"r{scope}{i}", "cfg": cfg, "ops": ops}) + "\n")
    return out, runs


def drive(v, prop, tier, tag):
    mode = PROPS[prop]["mode"]
    sync = "always" if mode == "power" else "none"
    work = os.path.join(OUT, "work", tag)
    q = tier == "quick"
    sets = []
    gfile, ng = gen_behaviours(v, tier, tag, sync)
    if mode == "fault" and not q:
        # every call of every behaviour is failed two or three times: the thorough tier samples the larger generated set
        gfile, ng = sample_behaviours(gfile, 3000)
    sets.append(("generated", gfile, ng, 10**6))
    if mode != "fault" or not q:
        # one operation deeper on the two configurations where an older, mostly-live file sits below an
        # eligible one (two entries per file + fragmentation threshold; one entry per file + dead bytes)
        dfile, nd = gen_behaviours(v, tier, tag + "-deep", sync, configs="MCConfigsDeepSync" if sync == "always" else "MCConfigsDeep",
                                   maxops=4 if q else 5)
        if q:
            # quick: a seeded third of the deeper set
            lines = open(dfile).read().splitlines()
            keep = [lines[0]] + [x for n, x in enumerate(lines[1:]) if (n + seed()) % 3 == 0]
            open(dfile, "w").write("\n".join(keep) + "\n")
            nd = len(keep) - 1
        if mode == "fault":
            dfile, nd = sample_behaviours(dfile, 2000)
        sets.append(("generated-deep", dfile, nd, 10**6))
    if mode == "fault":
        sets.append(("random-wide", *random_behaviours(tag, sync, 10 if q else 60, 12, "wide"), 40))
        rs = random_behaviours(tag, sync, 6 if q else 40, 8, "size")
        sets.append(("random-size", *rs, 40))
        # the way a full device usually fails a write: half of the bytes are written, the retry of the rest fails
        # (a partial record is left in the file also for entries below the write buffer)
        sets.append(("generated-short", gfile, ng, 10**6))
        sets.append(("random-size-short", *rs, 40))
    else:
        sets.append(("random-wide", *random_behaviours(tag, sync, 40 if q else 400, 25, "wide"), 400))
        sets.append(("random-size", *random_behaviours(tag, sync, 12 if q else 100, 12, "size"), 400))
    files, summary, aborts = [], {}, []
    for label, bfile, n, maxpts in sets:
        pre = os.path.join(work, label)
        f, sums, ab = run_shards("fsdrive", [mode, bfile, pre, "--seed", str(seed()), "--max-points", str(maxpts)] +
                                 (["--no-aftermath"] if prop == "C14" else []) + (["--short-writes"] if label.endswith("-short") else []),
                                 pre, min(NCPU, max(1, n)))
        files += f
        aborts += ab
        summary[label] = {k: sum(x.get(k, 0) for x in sums) for k in ("runs", "calls", "probes", "lines")}
    if aborts:
        v.cov["process_deaths_in_code_under_test"] = aborts[:10]
    return files, summary, gfile


def under_faults(v, prop, tier, tag, keep=lambda b: True, share=2):
    """The property `prop` on runs in which ONE system call fails (every mutating call of every kept behaviour of the
    TLC-generated set, ENOSPC and EIO): error paths are where a store forgets its own rules.  The verdicts of TraceFs
    that are about this property's observations (EXTRA[prop + 'f']) decide; quick: a seeded 1/share of the behaviours."""
    gfile, ng = gen_behaviours(v, tier, tag + "-uf", "none")
    lines = open(gfile).read().splitlines()
    kept = [x for x in lines[1:] if keep(json.loads(x))]
    if tier == "quick":
        kept = [x for n, x in enumerate(kept) if (n + seed()) % share == 0]
    elif len(kept) > 3000:
        kept = random.Random(seed() * 31337 + len(kept)).sample(kept, 3000)      # (thorough: the larger generated set is sampled)
    open(gfile, "w").write("\n".join([lines[0]] + kept) + "\n")
    files, sums, aborts = [], [], []
    plans = [("uf", gfile, [], len(kept)), ("uf-short", gfile, ["--short-writes"], len(kept))]
    if prop == "C14":
        # entries around and above the write buffer: a failed second write leaves the beginning of a record in the file
        rs, nrs = random_behaviours(tag + "-uf", "none", 6 if tier == "quick" else 40, 8, "size")
        plans += [("uf-size", rs, [], nrs), ("uf-size-short", rs, ["--short-writes"], nrs)]
    for name, bf, flags, n in plans:
        pre = os.path.join(OUT, "work", tag + "-uf", name)
        f1, s1, a1 = run_shards("fsdrive", ["fault", bf, pre, "--seed", str(seed()), "--max-points", "1000000" if bf == gfile else "40"] + flags,
                                pre, min(NCPU, max(1, n)))
        files += f1
        sums += s1
        aborts += a1
    if aborts:
        v.cov.setdefault("process_deaths_in_code_under_test", []).extend(aborts[:5])
    validate(v, prop + "f", files, tag + "-uf", report_as=prop)
    v.cov["runs_with_one_failed_call"] = sum(x.get("runs", 0) for x in sums)
    v.cov["behaviours_run_with_failed_calls"] = len(kept)
    if not v.violations:
        shutil.rmtree(os.path.join(OUT, "work", tag + "-uf"), ignore_errors=True)


def find_run(trace_file, line):
    evs = read_ndjson(trace_file)
    i = min(line, len(evs)) - 1
    start = i
    while start > 0 and evs[start].get("ev") != "reset":
        start -= 1
    return evs[0], evs[start:i + 1]


def classify_known(prop, why, run_events):
    """A violation is a KNOWN finding only if it matches a listed open finding exactly
    (property, the reason text, and the kind of call that was failed)."""
    inj = next((e for e in run_events if e.get("ev") == "sys" and e.get("injected")), None)
    inop = None
    for e in run_events:
        if e.get("ev") == "inv":
            inop = e.get("op")
        if e is inj:
            break
    for f in known_findings(prop):
        m = f.get("match", {})
        if m.get("why_contains") and m["why_contains"] not in why:
            continue
        if m.get("fault_call") and (not inj or inj.get("call") != m["fault_call"]):
            continue
        if m.get("fault_kind") and (not inj or inj.get("kind") != m["fault_kind"]):
            continue
        if m.get("fault_op") and inop != m["fault_op"]:
            continue
        if "fault_write_index_min" in m:
            # which write of the operation was failed (0 = its first write call)
            idx = -1
            cnt = 0
            seen_inv = False
            for e in run_events:
                if e.get("ev") == "inv":
                    cnt = 0
                if e.get("ev") == "sys" and e.get("call") == "write":
                    if e is inj:
                        idx = cnt
                    cnt += 1
            if idx < m["fault_write_index_min"]:
                continue
        return f
    return None


def validate(v, prop, files, tag, report_as=None):
    P = PROPS.get(prop) or EXTRA[prop]
    rprop = report_as or prop
    cfg = write_cfg(f"tracefs_{prop}_{tag}.cfg", TRACE_TMPL.format(invs=" ".join(P["trace"])))

    def one(f):
        return f, tlc("TraceFs.tla", cfg, workers=1, env={"TRACE": f, "JAVA_TOOL_OPTIONS": JAVA_OPTS_TRACE},
                      timeout=3000, xmx="3g", metatag=f"trfs-{prop}-{os.path.basename(f)}-{os.getpid()}")

    pending = list(files)
    nev = 0
    known_seen = {}
    rounds = 0
    while pending and rounds < 40:
        rounds += 1
        results = parallel(one, pending, n=NCPU)
        pending = []
        for f, r in results:
            v.cov["transitions"] += r.generated
            v.cov["states"] += r.distinct
            if r.ok:
                nev += max(0, r.distinct - 1)
                continue
            if not r.violated:
                raise ToolError(f"trace validation of {f} failed in the tooling: {r.out[-3000:]}")
            st = r.alias_state()
            m = re.search(r"\bline = (\d+)", st)
            line = int(m.group(1)) if m else 0
            m = re.search(r'\bwhy = "([^"]*)"', st)
            why = m.group(1) if m else r.violated
            m2 = re.search(r'\bwhy2 = "([^"]+)"', st)
            if m2 and any(x in ("C12_AfterCrash", "C13_AfterCrash") for x in P["trace"]):
                why = m2.group(1)      # (the second, independent verdict of the event is the one this judge looks at)
            hdr, evs = find_run(f, line)
            run_id = evs[0].get("run", "?") if evs else "?"
            kf = classify_known(rprop, why, evs)
            if kf is not None:
                known_seen.setdefault(kf["id"], [kf, 0])
                known_seen[kf["id"]][1] += 1
                # drop the explained run from the trace and validate the rest of the file
                allev = read_ndjson(f)
                s = line - 1
                while s > 0 and allev[s].get("ev") != "reset":
                    s -= 1
                e = line
                while e < len(allev) and allev[e].get("ev") != "reset":
                    e += 1
                rest = allev[:s] + allev[e:]
                with open(f, "w") as fh:
                    for x in rest:
                        fh.write(json.dumps(x) + "\n")
                if len(rest) > 1:
                    pending.append(f)
                continue
            if len(v.violations) >= 5:
                continue
            ops = [[e.get("op")] + [e[x] for x in ("k", "v") if x in e] for e in evs if e.get("ev") == "inv" and e.get("op") != "open"]
            if evs and evs[0].get("ops"):
                ops = evs[0]["ops"]    # the whole behaviour, wall-clock steps included
            payload = {"property": rprop, "judge": prop, "invariant": r.violated, "why": why, "trace_file": f, "line": line, "run": run_id,
                       "seed": seed(), "header": hdr, "mode": P["mode"],
                       "behaviour": {"cfg": evs[0].get("cfg") if evs else None, "ops": ops},
                       "fault": {k: evs[0].get(k) for k in ("fault", "errno") if evs and k in evs[0]},
                       "burst": (evs[0].get("burst") or None) if evs else None,
                       "events_tail": [{k: e[k] for k in e if k not in ("st",)} for e in evs[-8:]]}
            v.violation(f"{why} [line {line} of {os.path.basename(f)}, run {run_id}] {json.dumps(payload['behaviour'])[:300]}",
                        save_replay(rprop, payload))
    for kid, (kf, n) in known_seen.items():
        v.known_finding(f"{kf['what']} ({n} runs explained)")
    v.cov["trace_events_validated"] = v.cov.get("trace_events_validated", 0) + nev


MECH_CFG = """SPECIFICATION TSpec
CONSTANTS
  Keys <- TrKeys
  Vals <- TrVals
  KLen <- TrKLen
  VLen <- TrVLen
  Configs = {}
  MaxOps = 0
  MaxCrashes = 0
  Ops = {}
  Deviations = {}
  MaxFaults = 1000
  FDev = {}
POSTCONDITION Accepted
CHECK_DEADLOCK FALSE
"""


def mechanism(v, prop, files, tag):
    """Mechanism level: every recorded call sequence must be a behaviour of Bitcask.tla step by step
    (TraceMech.tla).  A rejection is model drift: recorded in the evidence, never an alarm."""
    cfg = write_cfg(f"tracemech_{prop}_{tag}.cfg", MECH_CFG)

    def one(f):
        try:
            return f, tlc("TraceMech.tla", cfg, workers=1, env={"TRACE": f, "JAVA_TOOL_OPTIONS": JAVA_OPTS_TRACE},
                          timeout=900, xmx="3g", metatag=f"trm-{prop}-{os.path.basename(f)}-{os.getpid()}")
        except ToolError as e:
            return f, str(e)       # (mechanism level: a search that does not finish is drift, not a failure of the check)

    ok, drift = 0, []
    for f, r in parallel(one, files, n=NCPU):
        if isinstance(r, str):
            drift.append({"file": os.path.basename(f), "first_unexplained": "no explanation found in time: " + r[:120]})
            continue
        v.cov["transitions"] += r.generated
        v.cov["states"] += r.distinct
        if r.ok:
            ok += 1
            continue
        m = re.search(r"MECHANISM DRIFT[^\n]*\n?[^\n]*", r.out)
        if not m and not r.postcondition_failed:
            raise ToolError(f"mechanism validation of {f} failed in the tooling: {r.out[-2500:]}")
        drift.append({"file": os.path.basename(f), "first_unexplained": (m.group(0)[:500] if m else "?")})
    v.cov["mechanism_traces_accepted"] = ok
    if drift:
        v.cov["model_drift"] = True
        v.cov["mechanism_drift"] = drift[:5]
        log(f"model drift: {len(drift)} trace files are not behaviours of Bitcask.tla step by step (not an alarm): {drift[0]}")


def short_append_runs(trace_file):
    """A copy of a short-write trace file with only the runs in which the short write hit an append (put / del)."""
    evs = read_ndjson(trace_file)
    out, run, keep, op = [evs[0]], [], False, None
    for e in evs[1:]:
        if e.get("ev") == "reset":
            if keep:
                out += run
            run, keep, op = [], False, None
        if e.get("ev") == "inv":
            op = e.get("op")
        if e.get("ev") == "sys" and e.get("injected") and e.get("res", -1) >= 0:
            keep = op in ("put", "del")
        run.append(e)
    if keep:
        out += run
    path = trace_file.replace(".ndjson", ".appends.ndjson")
    with open(path, "w") as fh:
        for e in out:
            fh.write(json.dumps(e) + "\n")
    return path


def check(prop, tier):
    v = Verdict(prop, tier)
    tag = f"{prop}-{os.getpid()}"
    work = os.path.join(OUT, "work", tag)
    try:
        t0 = time.time()
        def lap(what):
            v.cov.setdefault("phase_wall_s", {})[what] = round(time.time() - t0, 1)
        build_harness()
        model_check(v, prop, tier)
        lap("model checking")
        files, summary, gfile = drive(v, prop, tier, tag)
        lap("+ driver runs")
        # the files are rewritten by validate() only when a known finding is dropped from them
        # short writes: BitcaskFault.tla models them for appends (FailAppendShort); inside a merge the half that lands is
        # invisible to the model and the failing retry is the FailMerge step (TraceMech); the large-entry set stays at
        # property level
        mech_files = [x for x in files if "-short." not in os.path.basename(x) or "generated-short." in os.path.basename(x)]
        if PROPS[prop]["mode"] == "fault" and tier == "quick":
            # the fault traces are large (every call of every behaviour failed twice): a seeded third of the shards
            mech_files = [f for n, f in enumerate(mech_files) if (n + seed()) % 3 == 0]
        validate(v, prop, files, tag)
        lap("+ trace validation")
        # (C14 judges the calls themselves; the step-by-step validation of the same crash traces is part of C03)
        if mech_files and not v.violations and prop != "C14":
            mechanism(v, prop, mech_files, tag)
        lap("+ mechanism validation")
        if prop == "C14" and not v.violations:
            # the same discipline on the error paths: every call of every generated behaviour failed once
            under_faults(v, "C14", tier, tag)
        if prop == "C14":
            # content level: no file ever changes except by growing at its end / disappearing
            sfiles, ssum = storage.drive(v, tier, tag + "-s", storage.generate(v, tier, tag + "-s")[0])
            storage.validate(v, prop, sfiles, ["C14_AppendOnly", "C14_IdsOnlyGrow", "C14_SizeBound", "C14_OnlyStoreFiles"], tag)
            summary["content-level"] = {k: sum(s.get(k, 0) for s in ssum.values()) for k in ("runs", "ops")}
            lap("+ under faults and content level")
        v.cov["traces_validated_against_impl"] = sum(s.get("runs", 0) for s in summary.values())
        v.cov["driver"] = summary
        v.cov["probes"] = sum(s.get("probes", 0) for s in summary.values())
        v.cov["exhaustive"] = False
        v.cov["rule"] = {
            "crash": "every boundary between two recorded mutating system calls of every workload: the directory a kill "
                     "there leaves is rebuilt, opened by the real recovery code, read, and used further (put, reopen)",
            "power": "sync=always; at every boundary: the kill image, every file cut back to its last completed fsync, "
                     "each file alone, random mixes, and a torn cut",
            "fault": "every mutating system call of every workload failed once with ENOSPC and once with EIO",
        }[PROPS[prop]["mode"]]
        with open(gfile) as f:
            v.cov["samples"] = [json.loads(x) for x in f.read().splitlines()[1:4]]
        v.assumptions += [
            "a killed process leaves exactly the effects of a prefix of its system calls; one write(2) is atomic",
            "power loss: per file, any suffix after the last completed fsync may be missing; creations/removals are persistent",
            "the in-process shim sees every call Rust's std issues on the store directory (open64/write/fsync/unlink/...); mmap reads are not calls",
        ]
    finally:
        if not v.violations:
            shutil.rmtree(work, ignore_errors=True)
            shutil.rmtree(work + "-s", ignore_errors=True)
    return v.finish()


def replay(prop, path):
    rp = json.load(open(path))
    v = Verdict(prop, "quick")
    build_harness()
    tag = f"replay-{prop}-{os.getpid()}"
    work = os.path.join(OUT, "work", tag)
    os.makedirs(work, exist_ok=True)
    if rp.get("mode") is None:
        return storage.replay(prop, path)
    bfile = os.path.join(work, "behaviours.jsonl")
    with open(bfile, "w") as f:
        f.write(json.dumps({"keys": rp["header"]["keys"], "vals": rp["header"]["vals"]}) + "\n")
        b = {"id": rp.get("run", "replay"), "cfg": rp["behaviour"]["cfg"], "ops": rp["behaviour"]["ops"]}
        if rp.get("burst"):
            b["burst"] = rp["burst"]
        f.write(json.dumps(b) + "\n")
    pre = os.path.join(work, "re")
    files, sums, ab = run_shards("fsdrive", [rp["mode"], bfile, pre, "--seed", str(rp.get("seed", 1))], pre, 1)
    validate(v, rp.get("judge", prop), files, tag, report_as=prop)
    v.cov["traces_validated_against_impl"] = 1
    v.cov["samples"] = [rp["behaviour"]]
    return v.finish()
