"""Shared machinery of the checks: build, TLC runner, verdict/evidence plumbing."""
import json, os, re, shutil, subprocess, sys, time, hashlib, glob
from concurrent.futures import ThreadPoolExecutor

VERIF = os.path.dirname(os.path.dirname(os.path.abspath(__file__)))
SPEC = os.path.join(VERIF, "spec")
OUT = os.path.join(VERIF, "out")
HARNESS = os.path.join(VERIF, "harness")
BIN = os.path.join(OUT, "target", "debug")
EVIDENCE = os.path.join(VERIF, "evidence")
REPLAYS = os.path.join(OUT, "replays")
KNOWN = os.path.join(VERIF, "known_findings.json")

# (VERIF_NCPU: the test bench runs several checks side by side and gives each a share of the cores)
NCPU = int(os.environ.get("VERIF_NCPU") or os.cpu_count() or 4)


class ToolError(Exception):
    """The tooling itself failed (build, TLC crash, timeout): exit code 2, never a VIOLATION."""


def seed():
    try:
        return int(os.environ.get("VERIF_SEED", "1"))
    except ValueError:
        return 1


def log(*a):
    print("[check]", *a, file=sys.stderr, flush=True)


def run(cmd, cwd=None, env=None, timeout=None, check=False):
    e = dict(os.environ)
    e.setdefault("CARGO_NET_OFFLINE", "true")
    if env:
        e.update(env)
    try:
        p = subprocess.run(cmd, cwd=cwd, env=e, timeout=timeout, stdout=subprocess.PIPE,
                           stderr=subprocess.STDOUT, text=True, errors="replace")
    except subprocess.TimeoutExpired as ex:
        out = ex.stdout if isinstance(ex.stdout, str) else (ex.stdout or b"").decode(errors="replace")
        raise ToolError(f"timeout after {timeout}s: {' '.join(map(str, cmd))[:200]}\n{out[-2000:]}")
    if check and p.returncode != 0:
        raise ToolError(f"command failed ({p.returncode}): {' '.join(map(str, cmd))[:200]}\n{p.stdout[-4000:]}")
    return p


_built = False


def build_harness():
    """(Re)build the harness against /repo's current working tree, hooks enabled."""
    global _built
    if _built:
        return
    os.makedirs(OUT, exist_ok=True)
    lock = os.path.join(HARNESS, "Cargo.lock")
    if not os.path.exists(lock):
        shutil.copy("/repo/Cargo.lock", lock)
    t0 = time.time()
    p = run(["cargo", "build", "--offline", "--bins"], cwd=HARNESS, timeout=1800)
    if p.returncode != 0:
        raise ToolError("harness build failed (does /repo still compile with --features verif?)\n" + p.stdout[-6000:])
    log(f"harness built in {time.time() - t0:.1f}s")
    _built = True


# ------------------------------------------------------------------------------------------
# TLC

JAVA_OPTS_TRACE = "-Xss1g -Dtlc2.tool.queue.IStateQueue=StateDeque"


class TlcResult:
    def __init__(self, out, rc, wall):
        self.out, self.rc, self.wall = out, rc, wall
        ms = re.findall(r"([\d,]+) states generated, ([\d,]+) distinct states found", out)
        self.generated = int(ms[-1][0].replace(",", "")) if ms else 0
        self.distinct = int(ms[-1][1].replace(",", "")) if ms else 0
        m = re.search(r"depth of the complete state graph search is (\d+)", out)
        self.depth = int(m.group(1)) if m else 0
        self.ok = "Model checking completed. No error has been found." in out
        m = re.search(r"Invariant (\S+) is violated", out)
        self.violated = m.group(1) if m else None
        if not self.violated:
            m = re.search(r"Action property (\S+) is violated|Temporal properties were violated", out)
            if m:
                self.violated = m.group(1) or "temporal"
        self.eval_error = None
        m = re.search(r"Error: Evaluating invariant (\S+) failed", out)
        if m:
            self.eval_error = m.group(1)
        self.parse_error = "Parsing or semantic analysis failed" in out
        self.postcondition_failed = "Postcondition" in out and "violated" in out or "TRACE NOT ACCEPTED" in out
        self.deadlock = "Deadlock reached" in out

    def alias_state(self):
        """The last state TLC printed (as text), used to locate a violation in a trace."""
        i = self.out.rfind("State ")
        return self.out[i:i + 3000] if i >= 0 else ""


def tlc(module, cfg, workers=1, env=None, timeout=600, xmx="4g", extra=(), metatag=None, simulate=None):
    os.makedirs(os.path.join(OUT, "tlc"), exist_ok=True)
    tag = metatag or f"{module}-{os.getpid()}-{int(time.time()*1000) % 100000000}"
    meta = os.path.join(OUT, "tlc", tag)
    # TLC leaves an empty directory in java.io.tmpdir per run: keep them under out/ (removed below)
    jtmp = os.path.join(OUT, "tlc", tag + ".tmp")
    os.makedirs(jtmp, exist_ok=True)
    e = {"JAVA_TOOL_OPTIONS": f"-Xmx{xmx} -Djava.io.tmpdir={jtmp} " + (env or {}).pop("JAVA_TOOL_OPTIONS", "")}
    if env:
        e.update(env)
    cmd = ["timeout", str(timeout), "tlc", "-workers", str(workers), "-metadir", meta, "-cleanup",
           "-noGenerateSpecTE", "-config", cfg]
    if simulate:
        cmd += ["-simulate", simulate]
    cmd += list(extra) + [module]
    t0 = time.time()
    p = run(cmd, cwd=SPEC, env=e, timeout=timeout + 30)
    shutil.rmtree(meta, ignore_errors=True)
    shutil.rmtree(jtmp, ignore_errors=True)
    r = TlcResult(p.stdout, p.returncode, time.time() - t0)
    if p.returncode == 124:
        raise ToolError(f"TLC timed out after {timeout}s on {module}/{cfg}")
    if r.parse_error:
        raise ToolError(f"TLC could not parse {module}/{cfg}:\n{p.stdout[-3000:]}")
    return r


def run_shards(binary, args, prefix, n, timeout=3000, synth=None):
    """Run a driver as n shard processes (`--shard i/n`), each writing <prefix>.<i>.ndjson.
    A shard that dies inside code under test (it left a pending-step note) contributes its
    trace up to that point plus a synthetic event with outcome "abort"; a shard that dies
    anywhere else is a tool error.  Returns (files, summaries, aborts)."""
    os.makedirs(os.path.dirname(prefix), exist_ok=True)

    def one(i):
        return i, run([os.path.join(BIN, binary)] + args + ["--shard", f"{i}/{n}"], timeout=timeout)

    files, sums, aborts = [], [], []
    for i, p in parallel(one, range(n), n=n):
        f = f"{prefix}.{i}.ndjson"
        pend = f"{prefix}.{i}.pending"
        if p.returncode == 0:
            try:
                sums.append(json.loads(p.stdout.strip().splitlines()[-1]))
            except Exception:
                raise ToolError(f"{binary} shard {i}: no summary\n{p.stdout[-2000:]}")
            files.append(f)
            continue
        note = None
        if os.path.exists(pend) and os.path.getsize(pend) > 0:
            try:
                note = json.load(open(pend))
            except Exception:
                note = None
        if note is None:
            raise ToolError(f"{binary} shard {i} died outside the code under test (rc={p.returncode})\n{p.stdout[-3000:]}")
        evs = read_ndjson(f)
        how = f"process died (rc={p.returncode}): " + (p.stdout.strip().splitlines() or ["?"])[0][:200]
        if synth is not None:
            ev = synth(note, evs, how)
            with open(f, "a") as fh:
                fh.write(json.dumps(ev) + "\n")
            files.append(f)
            aborts.append({"shard": i, "event": {k: (x if len(str(x)) < 300 else str(x)[:300]) for k, x in ev.items()}, "how": how})
            sums.append({"runs": len(evs), "lines": len(evs) + 1})
            continue
        last_st = next((e["st"] for e in reversed(evs) if "st" in e), {"data": [], "hint": []})
        phase = note.pop("phase", "op")
        note.pop("run", None) if note.get("ev") != "reset" else None
        ev = dict(note)
        how = f"process died (rc={p.returncode}): " + (p.stdout.strip().splitlines() or ["?"])[0][:200]
        if phase == "op":
            ev["res"] = "abort"
            if ev.get("ev") != "reset":
                ev["st"] = last_st
        elif phase == "gets":
            ev["gets"] = {k: "abort" for k in evs[0]["keys"]}
            ev["st"] = last_st
        else:  # rec / recnh probes
            ev["st"] = last_st
            ev["rec"] = {"opened": False, "err": "abort"}
        ev["abort"] = how
        with open(f, "a") as fh:
            fh.write(json.dumps(ev) + "\n")
        files.append(f)
        aborts.append({"shard": i, "phase": phase, "event": {k: ev[k] for k in ev if k not in ("st",)}, "how": how})
        sums.append({"runs": sum(1 for e in evs if e.get("ev") == "reset"), "ops": len(evs), "probes": 0, "lines": len(evs) + 1})
    return files, sums, aborts


def write_cfg(name, text):
    """Write a generated .cfg next to the modules (under spec/_gen, git-ignored) and return its path."""
    d = os.path.join(SPEC, "_gen")
    os.makedirs(d, exist_ok=True)
    p = os.path.join(d, name)
    with open(p, "w") as f:
        f.write(text)
    return os.path.join("_gen", name)


def parallel(fn, items, n=None):
    with ThreadPoolExecutor(max_workers=n or max(1, NCPU // 2)) as ex:
        return list(ex.map(fn, items))


# ------------------------------------------------------------------------------------------
# Known findings (committed file, never written at run time)

def known_findings(prop):
    try:
        k = json.load(open(KNOWN))
    except FileNotFoundError:
        return []
    return [f for f in k.get("findings", []) if f.get("property") == prop and f.get("status") == "open"]


# ------------------------------------------------------------------------------------------
# Verdict and evidence

class Verdict:
    def __init__(self, prop, tier):
        self.prop, self.tier = prop, tier
        self.t0 = time.time()
        self.violations = []       # (what, replay_path)
        self.known = []            # text
        self.cov = {"states": 0, "transitions": 0, "traces_validated_against_impl": 0, "samples": [],
                    "tlc_runs": [], "model_drift": False}
        self.assumptions = []
        self.level = "model_checking"

    def add_tlc(self, label, r, cfgtext=None):
        self.cov["states"] += r.distinct
        self.cov["transitions"] += r.generated
        self.cov["tlc_runs"].append({"run": label, "distinct_states": r.distinct, "states_generated": r.generated,
                                      "depth": r.depth, "wall_s": round(r.wall, 1),
                                      "result": "ok" if r.ok else (r.violated or "error")})

    def violation(self, what, replay):
        self.violations.append((what, replay))
        print(f"VIOLATION property={self.prop} replay={replay}", flush=True)
        log(f"  -> {what}")

    def known_finding(self, text):
        self.known.append(text)
        print(f"KNOWN-FINDING: property={self.prop} {text}", flush=True)

    def finish(self):
        os.makedirs(EVIDENCE, exist_ok=True)
        ev = {
            "property_id": self.prop,
            "tier": self.tier,
            "seed": seed(),
            "level": self.level,
            "coverage": self.cov,
            "assumptions": self.assumptions,
            "wall_s": round(time.time() - self.t0, 1),
            "violations": len(self.violations),
        }
        if self.known:
            ev["coverage"]["known_findings_reported"] = self.known
        if self.violations:
            ev["coverage"]["violation_details"] = [{"what": w, "replay": r} for w, r in self.violations[:20]]
        with open(os.path.join(EVIDENCE, f"{self.prop}.json"), "w") as f:
            json.dump(ev, f, indent=1)
        return 1 if self.violations else 0


def save_replay(prop, payload):
    os.makedirs(REPLAYS, exist_ok=True)
    h = hashlib.sha1(json.dumps(payload, sort_keys=True).encode()).hexdigest()[:10]
    p = os.path.join(REPLAYS, f"{prop}-{h}.json")
    with open(p, "w") as f:
        json.dump(payload, f, indent=1)
    return p


def read_ndjson(path):
    with open(path) as f:
        return [json.loads(l) for l in f if l.strip()]
