#!/usr/bin/env python3
"""Apply a patch to /repo, run the given checks, always restore /repo.
   usage: try_mutant.py <patch.diff> <tier> <Cnn> [<Cnn> ...]"""
import subprocess, sys, os, time
patch, tier, props = sys.argv[1], sys.argv[2], sys.argv[3:]
# (a second copy of /verif whose harness depends on a scratch worktree can be used in parallel:
#  TRY_REPO=/tmp/repo2 TRY_VERIF=/tmp/verif2)
REPO, VERIF = os.environ.get("TRY_REPO", "/repo"), os.environ.get("TRY_VERIF", "/verif")
def sh(*a, **k): return subprocess.run(a, stdout=subprocess.PIPE, stderr=subprocess.STDOUT, text=True, **k)
st = sh("git", "-C", REPO, "status", "--porcelain", "--untracked-files=no").stdout.strip()
if st:
    print("REFUSING: /repo has local modifications:\n" + st); sys.exit(3)
r = sh("git", "-C", REPO, "apply", patch)
if r.returncode != 0:
    print("patch does not apply:", r.stdout); sys.exit(3)
try:
    for p in props:
        t0 = time.time()
        r = sh(VERIF + "/check", p, "--tier", tier, cwd=VERIF)
        viol = [l for l in r.stdout.splitlines() if l.startswith("VIOLATION") or l.startswith("KNOWN-FINDING")]
        detail = [l for l in r.stdout.splitlines() if "  -> " in l][:3]
        print(f"{os.path.basename(os.path.dirname(patch))}/{p}: exit={r.returncode} {time.time()-t0:.0f}s", *viol[:3], *detail, sep="\n   ")
        if r.returncode == 2:
            print(r.stdout[-1500:])
finally:
    sh("git", "-C", REPO, "checkout", "--", ".")
    print("restored:", sh("git", "-C", REPO, "status", "--porcelain", "--untracked-files=no").stdout.strip() or "clean")
