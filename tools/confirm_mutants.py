#!/usr/bin/env python3
"""Confirm every collected mutant in a scratch worktree of /repo (never in /repo itself):
   with the patch: builds with and without the feature, the 44 tests pass, the demo FAILS;
   without the patch: the demo PASSES.  Writes /tmp/mutout/confirm.json."""
import json, os, subprocess, sys, glob, time
WT = "/tmp/confirm_wt"
def sh(cmd, cwd=WT, timeout=1800):
    try:
        p = subprocess.run(cmd, shell=True, cwd=cwd, stdout=subprocess.PIPE, stderr=subprocess.STDOUT, text=True, timeout=timeout)
        return p.returncode, p.stdout
    except subprocess.TimeoutExpired as e:
        return 124, "timeout"
if not os.path.isdir(WT):
    subprocess.run(["git", "-C", "/repo", "worktree", "add", "--detach", WT, "HEAD"], check=True, stdout=subprocess.DEVNULL)
res = {}
out = "/tmp/mutout/confirm.json"
if os.path.exists(out):
    res = json.load(open(out))
only = sys.argv[1:]
for d in sorted(glob.glob("/tmp/mutout/C??/[AB]") + glob.glob("/tmp/mutout/C??r2/[AB]") + glob.glob("/tmp/mutout/C??r3/[AB]")):
    name = d.split("/")[-2] + "-" + d.split("/")[-1]
    if only and name not in only: continue
    if name in res and not only: continue
    patch = os.path.join(d, "patch.rebased.diff") if os.path.exists(os.path.join(d, "patch.rebased.diff")) else os.path.join(d, "patch.diff")
    r = {"patch": patch}
    sh("git checkout -q -- . && git clean -fdq -e target")
    rc, o = sh(f"git apply {patch}")
    r["applies"] = rc == 0
    if rc != 0:
        res[name] = r; json.dump(res, open(out, "w"), indent=1); continue
    rc, o = sh("cargo build --offline -j 6 --features verif 2>&1 | tail -3")
    r["builds_verif"] = "error" not in o
    rc, o = sh("cargo test --offline -j 6 2>&1 | grep -E '^test result' | head -1")
    r["tests"] = o.strip()
    t0 = time.time()
    rc, o = sh(f"bash {d}/demo/run.sh", timeout=900)
    r["demo_with_patch_exit"] = rc
    r["demo_with_tail"] = o[-400:]
    sh("git checkout -q -- . && git clean -fdq -e target")
    rc, o = sh(f"bash {d}/demo/run.sh", timeout=900)
    r["demo_without_patch_exit"] = rc
    r["demo_s"] = round(time.time() - t0)
    sh("git checkout -q -- . && git clean -fdq -e target")
    r["confirmed"] = r["applies"] and r["builds_verif"] and "44 passed; 0 failed" in r["tests"] and r["demo_with_patch_exit"] != 0 and r["demo_without_patch_exit"] == 0
    res[name] = r
    json.dump(res, open(out, "w"), indent=1)
    print(name, r["confirmed"], r["tests"], r["demo_with_patch_exit"], r["demo_without_patch_exit"], flush=True)
