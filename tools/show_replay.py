#!/usr/bin/env python3
import json,sys
r=json.load(open(sys.argv[1]))
print(r.get('why'), r.get('fault'))
evs=[json.loads(l) for l in open(r['trace_file'])]
print(evs[0])
i=r['line']-1
s=i
while evs[s]['ev']!='reset': s-=1
for e in evs[s:i+1]:
    st=e.pop('st',None)
    if e['ev']=='sys' and e['call'] in ('close','open_ro'): continue
    for k in ('append','excl','trunc','tid','errno','file'): e.pop(k,None)
    print(json.dumps(e)[:int(sys.argv[2]) if len(sys.argv)>2 else 230])
