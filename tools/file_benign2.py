#!/usr/bin/env python3
"""File the benign patches of round 2 (H1..H6, results of tools/par_mutants.py PAR_MODE=benign) under /verif/benign/<name>/
   and rebuild benign/TABLE.md over both rounds (later result files win; first-run alarms are kept in the notes)."""
import json, os, glob, shutil
res_file = "/verif/tools/benign_results.json"
res = json.load(open(res_file))
notes = json.load(open("/verif/tools/benign_notes.json"))
for f in ("/verif/out/ben2_results.json", "/verif/out/ben2b_results.json", "/verif/out/ben2c_results.json", "/verif/out/ben2d_results.json", "/verif/out/ben2e_results.json", "/verif/out/ben2f_results.json"):
    if not os.path.exists(f):
        continue
    for name, r in json.load(open(f)).items():
        if name[0] not in "GH":
            continue
        src = r["dir"]
        d = f"/verif/benign/{name}"
        os.makedirs(d, exist_ok=True)
        patch = os.path.join(src, "patch.rebased.diff") if os.path.exists(os.path.join(src, "patch.rebased.diff")) else os.path.join(src, "patch.diff")
        shutil.copy(patch, os.path.join(d, "patch.diff"))
        meta = json.load(open(os.path.join(src, "meta.json")))
        meta["tests_with_patch"] = r.get("tests", meta.get("tests_with_patch", ""))
        json.dump(meta, open(os.path.join(d, "meta.json"), "w"), indent=1)
        for p, c in r.get("checks", {}).items():
            res.setdefault(name, {})[p] = c["exit"]
json.dump(res, open(res_file, "w"), indent=1, sort_keys=True)
rows = ["| Patch | What it changes | Quick checks run against it | Result |", "|---|---|---|---|"]
for d in sorted(glob.glob("/verif/benign/[GH]*")):
    name = os.path.basename(d)
    meta = json.load(open(os.path.join(d, "meta.json")))
    r = res.get(name, {})
    bad = {c: e for c, e in r.items() if e != 0}
    verdict = "all silent (exit 0)" if r and not bad else ("; ".join(f"{c}: exit {e}" for c, e in sorted(bad.items())) if bad else "not run")
    if name in notes:
        verdict += " - " + notes[name]
    rows.append(f"| {name} | {meta.get('title', '')[:150]} | {' '.join(sorted(r))} | {verdict} |")
open("/verif/benign/TABLE.md", "w").write("\n".join(rows) + "\n")
print(len(rows) - 2, "patches;", sum(1 for n in res if any(e != 0 for e in res[n].values())), "with a non-zero exit")
