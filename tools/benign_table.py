#!/usr/bin/env python3
"""Collect the results of running quick checks against the benign patches (logs of tools/try_mutant.py given as
   arguments, later ones win) into tools/benign_results.json and write benign/TABLE.md."""
import json, re, sys, os, glob
res_file = "/verif/tools/benign_results.json"
res = json.load(open(res_file)) if os.path.exists(res_file) else {}
for log in sys.argv[1:]:
    for line in open(log):
        m = re.match(r"\[(G\d-[A-D])\] [A-D]/(C\d\d): exit=(\d+)", line)
        if m:
            res.setdefault(m.group(1), {})[m.group(2)] = int(m.group(3))
json.dump(res, open(res_file, "w"), indent=1, sort_keys=True)
rows = ["| Patch | What it changes | Quick checks run against it | Result |", "|---|---|---|---|"]
notes = json.load(open("/verif/tools/benign_notes.json")) if os.path.exists("/verif/tools/benign_notes.json") else {}
for d in sorted(glob.glob("/verif/benign/G*")):
    name = os.path.basename(d)
    meta = json.load(open(os.path.join(d, "meta.json")))
    r = res.get(name, {})
    bad = {c: e for c, e in r.items() if e != 0}
    verdict = "all silent (exit 0)" if r and not bad else ("; ".join(f"{c}: exit {e}" for c, e in sorted(bad.items())) if bad else "not run")
    if name in notes:
        verdict += " - " + notes[name]
    rows.append(f"| {name} | {meta.get('title', '')[:150]} | {' '.join(sorted(r))} | {verdict} |")
open("/verif/benign/TABLE.md", "w").write("\n".join(rows) + "\n")
print(len(rows) - 2, "patches;", sum(1 for n in res if any(e != 0 for e in res[n].values())), "with a non-zero exit")
