#!/usr/bin/env python3
"""usage: file_round.py <round, e.g. r5> <results.json>...   File the confirmed seeded changes of a round (results of tools/par_mutants.py) under
   /verif/seeded/<name>/ (patch.diff, demo/, meta.json), record the detection results in tools/detection.json and
   rebuild seeded/TABLE.md (all rounds)."""
import json, os, glob, shutil, re
import sys
ROUND = sys.argv[1]
R = {}
for _f in sys.argv[2:]:
    R.update(json.load(open(_f)))
C2 = json.load(open(f"/verif/out/{ROUND}_confirm2.json")) if os.path.exists(f"/verif/out/{ROUND}_confirm2.json") else {}
DET = json.load(open("/verif/tools/detection.json"))
NOTES = json.load(open(f"/verif/tools/{ROUND}_notes.json"))
for name in sorted(R):
    r = R[name]
    conf = r.get("confirmed") or C2.get(name, {}).get("confirmed")
    src = r["dir"]
    meta = json.load(open(os.path.join(src, "meta.json")))
    first = NOTES.get(name, {}).get("first", {})          # exits of the FIRST run of each check (before strengthening)
    checks = dict(first)
    for p, c in r.get("checks", {}).items():
        checks[p] = c["exit"]
    if not conf:
        print("NOT CONFIRMED", name); continue
    d = f"/verif/seeded/{name}"
    shutil.rmtree(d, ignore_errors=True)
    os.makedirs(d)
    patch = os.path.join(src, "patch.rebased.diff") if os.path.exists(os.path.join(src, "patch.rebased.diff")) else os.path.join(src, "patch.diff")
    shutil.copy(patch, os.path.join(d, "patch.diff"))
    shutil.copytree(os.path.join(src, "demo"), os.path.join(d, "demo"))
    for junk in glob.glob(os.path.join(d, "demo", "*.log")) + glob.glob(os.path.join(d, "demo", "*.so")):
        os.remove(junk)
    cc = C2.get(name, r)
    json.dump({
        "property": name[:3],
        "origin": "written by a fresh sub-agent that was given only the property text and a scratch worktree of /repo",
        "agent_meta": meta,
        "rebased": patch.endswith("rebased.diff"),
        "confirmed_by_me": {"where": "scratch worktree of /repo HEAD under /tmp (tools/par_mutants.py; removed afterwards)",
                            "builds_with_feature_verif": cc.get("builds_verif"), "existing_tests": cc.get("tests"),
                            "demo_exit_with_patch": cc.get("demo_with_patch_exit"), "demo_exit_without_patch": cc.get("demo_without_patch_exit"),
                            "note": NOTES.get(name, {}).get("confirm_note", "")},
        "checks_run_against_it": [{"cmd": f"tools/par_mutants.py (quick check {p} in a copy of /verif against a worktree with the patch)", "exit": e,
                                   "first_run_exit": first.get(p, e)} for p, e in sorted(checks.items())],
    }, open(os.path.join(d, "meta.json"), "w"), indent=1)
    DET[name] = [[p, e] for p, e in sorted(checks.items(), key=lambda x: (x[0] != name[:3], x[0]))]
    if NOTES.get(name, {}).get("history"):
        DET[name + ":history"] = NOTES[name]["history"]
json.dump(DET, open("/verif/tools/detection.json", "w"), indent=1)

# the table over all rounds
rows = []
for d in sorted(glob.glob("/verif/seeded/C*")):
    name = os.path.basename(d)
    m = json.load(open(os.path.join(d, "meta.json")))
    am = m.get("agent_meta", {})
    what = am.get("title") or am.get("what_it_breaks") or ""
    what = what if len(what) < 110 else what[:107] + "..."
    needs = am.get("needs_to_manifest") or ""
    needs = needs if len(needs) < 140 else needs[:137] + "..."
    prop = m["property"]
    def verdict(c, e):
        if e == 1: return "caught"
        if e == 0 and c != prop: return "silent (the change does not break this property)"
        return "MISSED" if e == 0 else "tool error"
    det = DET.get(name, [])
    remark = " ".join(x for x in (DET.get(name + ":history"), DET.get(name + ":note")) if x)
    rows.append((name, what, needs, ", ".join(f"{c}: {verdict(c, e)}" for c, e in det) + ((" - " + remark) if remark else "")))
old = open("/verif/seeded/TABLE.md").read().splitlines()
keep_notkept = [l for l in old if "not kept:" in l]
with open("/verif/seeded/TABLE.md", "w") as f:
    f.write("| Seeded change | What it does | Needs to manifest | Quick checks run against it |\n|---|---|---|---|\n")
    lines = ["| " + " | ".join(str(x).replace("|", "/").replace("\n", " ") for x in r) + " |" for r in rows] + keep_notkept
    for l in sorted(lines):
        f.write(l + "\n")
print(len(rows), "rows")
