#!/usr/bin/env python3
"""File the confirmed seeded changes under /verif/seeded/<Cnn>-<A|B>/ (patch.diff, demo/, meta.json)
   and print the detection table for DESIGN.md."""
import json, os, re, glob, shutil
conf = json.load(open("/tmp/mutout/confirm.json"))
# detection results from the runs of tools/try_mutant.py (latest result per mutant/check wins)
det = {}
for log in sorted(glob.glob("/verif/out/mut_*.log"), key=os.path.getmtime):
    cur = None
    for line in open(log):
        m = re.match(r"([AB])/(C\d\d): exit=(\d+) (\d+)s", line)
        if m:
            cur = None
            # which patch was it? the runner prints <dir>/<check>; the mutant id is the patch's property dir
            continue
# simpler: an explicit table maintained by hand from the logs (mutant -> [(check, exit)])
DET = json.load(open("/verif/tools/detection.json"))
rows = []
for name in sorted(conf):
    r = conf[name]
    pdir, x = name.split("-")
    prop = pdir[:3]
    src = f"/tmp/mutout/{pdir}/{x}"
    d = f"/verif/seeded/{name}"
    meta = {}
    try:
        meta = json.load(open(os.path.join(src, "meta.json")))
    except Exception:
        pass
    detected = DET.get(name, [])
    if not r.get("confirmed"):
        rows.append((name, meta.get("title") or meta.get("what_it_breaks", "")[:80], "not kept: " + DET.get(name + ":note", "not confirmed on the current tree"), ""))
        continue
    shutil.rmtree(d, ignore_errors=True)
    os.makedirs(d)
    shutil.copy(r["patch"], os.path.join(d, "patch.diff"))
    shutil.copytree(os.path.join(src, "demo"), os.path.join(d, "demo"))
    for junk in glob.glob(os.path.join(d, "demo", "*.log")):
        os.remove(junk)
    meta_out = {
        "property": prop,
        "origin": "written by a fresh sub-agent that was given only the property text and a scratch worktree of /repo",
        "agent_meta": meta,
        "rebased": r["patch"].endswith("rebased.diff"),
        "confirmed_by_me": {
            "where": "scratch worktree /tmp/confirm_wt of /repo HEAD (removed afterwards)",
            "builds_with_feature_verif": r["builds_verif"], "existing_tests": r["tests"],
            "demo_exit_with_patch": r["demo_with_patch_exit"], "demo_exit_without_patch": r["demo_without_patch_exit"],
        },
        "checks_run_against_it": [{"cmd": f"tools/try_mutant.py seeded/{name}/patch.diff quick {c}", "exit": e} for c, e in detected],
    }
    json.dump(meta_out, open(os.path.join(d, "meta.json"), "w"), indent=1)
    what = (meta.get("title") or meta.get("what_it_breaks") or "")
    what = what if len(what) < 110 else what[:107] + "..."
    needs = (meta.get("needs_to_manifest") or "")
    needs = needs if len(needs) < 140 else needs[:137] + "..."
    def verdict(c, e):
        if e == 1:
            return "caught"
        if e == 0 and c != prop:
            return "silent (the change does not break this property)"
        return "MISSED" if e == 0 else "tool error"
    remark = " ".join(x for x in (DET.get(name + ":history"), DET.get(name + ":note")) if x)
    rows.append((name, what, needs, ", ".join(f"{c}: {verdict(c, e)}" for c, e in detected) + ((" - " + remark) if remark else "")))
with open("/verif/seeded/TABLE.md", "w") as f:
    f.write("| Seeded change | What it does | Needs to manifest | Quick checks run against it |\n|---|---|---|---|\n")
    for r in rows:
        f.write("| " + " | ".join(str(x).replace("|", "/").replace("\n", " ") for x in r) + " |\n")
print(open("/verif/seeded/TABLE.md").read()[:3000])
