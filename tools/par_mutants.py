#!/usr/bin/env python3
"""Confirm seeded changes and run the quick checks against them, in parallel, WITHOUT touching /repo:
   every worker has its own scratch worktree of /repo's HEAD (/tmp/tv<i>/repo) and its own copy of /verif
   (/tmp/tv<i>/verif, harness path dependency rewritten to that worktree).

   usage: par_mutants.py <workers> <results.json> <name>=<dir>[:Cnn,Cnn...] ...
          <dir> holds patch.diff (or patch.rebased.diff), demo/run.sh, meta.json; the checks default to the
          property in the name (C04r4-A -> C04).
   For each change: apply -> build with the feature -> the 44 tests -> demo (must fail) -> quick checks -> revert
   -> demo (must pass).  Results are appended to <results.json> (one object per name).
   The registered checks and the committed evidence never come from here: this is the test bench for the
   machinery, the table in DESIGN.md section 12 is built from its results."""
import json, os, subprocess, sys, threading, time, queue, re

nworkers, out = int(sys.argv[1]), sys.argv[2]
jobs = queue.Queue()
for a in sys.argv[3:]:
    name, rest = a.split("=", 1)
    d, _, props = rest.partition(":")
    jobs.put((name, d, props.split(",") if props else [name[:3]]))
lock = threading.Lock()
results = json.load(open(out)) if os.path.exists(out) else {}
MODE = os.environ.get("PAR_MODE", "all")      # all | detect (skip confirmation) | confirm (skip checks) | benign (build, tests, checks; no demo)


def sh(cmd, cwd, timeout=3600, env=None):
    e = dict(os.environ)
    e.update(env or {})
    try:
        p = subprocess.run(cmd, shell=True, cwd=cwd, stdout=subprocess.PIPE, stderr=subprocess.STDOUT, text=True, timeout=timeout, env=e)
        return p.returncode, p.stdout
    except subprocess.TimeoutExpired:
        return 124, "timeout"


_locks = []


def claim_dir():
    """A worker directory nobody else uses: several invocations of this tool may run side by side, each worker holds
    an flock on its directory's lock file for as long as it lives."""
    import fcntl
    while True:
        for k in range(12):
            f = open(f"/tmp/tv{k}.lock", "w")
            try:
                fcntl.flock(f, fcntl.LOCK_EX | fcntl.LOCK_NB)
                _locks.append(f)
                return k
            except OSError:
                f.close()
        time.sleep(5)


def setup(i):
    i = claim_dir()
    base = f"/tmp/tv{i}"
    repo, verif = base + "/repo", base + "/verif"
    os.makedirs(base, exist_ok=True)
    if not os.path.isdir(repo):
        subprocess.run(["git", "-C", "/repo", "worktree", "add", "--detach", repo, "HEAD"], check=True, stdout=subprocess.DEVNULL, stderr=subprocess.DEVNULL)
    else:
        sh("git checkout -q --detach $(git -C /repo rev-parse HEAD) && git checkout -q -- . && git clean -fdq -e target", repo)
    sh(f"mkdir -p {verif} && rsync -a --delete --exclude out --exclude .git --exclude __pycache__ --exclude 'spec/_gen' --exclude 'spec/states' /verif/ {verif}/", "/")
    sh(f"sed -i 's#path = \"/repo\"#path = \"{repo}\"#' {verif}/harness/Cargo.toml", "/")
    return repo, verif


def worker(i):
    repo, verif = setup(i)
    while True:
        try:
            name, d, props = jobs.get_nowait()
        except queue.Empty:
            return
        r = {"dir": d, "props": props}
        patch = os.path.join(d, "patch.rebased.diff") if os.path.exists(os.path.join(d, "patch.rebased.diff")) else os.path.join(d, "patch.diff")
        r["patch"] = patch
        sh("git checkout -q -- . && git clean -fdq -e target", repo)
        rc, o = sh(f"git apply {patch}", repo)
        r["applies"] = rc == 0
        if rc != 0:
            r["apply_error"] = o[-500:]
        else:
            t0 = time.time()
            if MODE != "detect":
                rc, o = sh("cargo build --offline -j 6 --features verif 2>&1 | tail -3", repo)
                r["builds_verif"] = "error" not in o
                rc, o = sh("cargo test --offline -j 6 2>&1 | grep -E '^test result' | head -1", repo)
                r["tests"] = o.strip()
            if MODE not in ("detect", "benign"):
                rc, o = sh(f"bash {d}/demo/run.sh", repo, timeout=1200)
                r["demo_with_patch_exit"] = rc
                r["demo_with_tail"] = o[-300:]
            if MODE != "confirm":
                r["checks"] = {}
                for p in props:
                    t1 = time.time()
                    rc, o = sh(f"./check {p} --tier quick", verif, timeout=3600, env={"VERIF_NCPU": str(max(4, 20 // nworkers))})
                    viol = [l for l in o.splitlines() if l.startswith("VIOLATION") or l.startswith("KNOWN-FINDING")]
                    detail = [l for l in o.splitlines() if "  -> " in l][:2]
                    r["checks"][p] = {"exit": rc, "s": round(time.time() - t1), "violations": viol[:2], "detail": [x[:400] for x in detail],
                                      "tail": o[-1500:] if rc == 2 else ""}
            sh("git checkout -q -- . && git clean -fdq -e target", repo)
            # (a check that found a violation keeps its traces: not needed here, and the disk is small)
            sh("rm -rf out/work out/replays out/tlc out/apalache", verif)
            if MODE not in ("detect", "benign"):
                rc, o = sh(f"bash {d}/demo/run.sh", repo, timeout=1200)
                r["demo_without_patch_exit"] = rc
                r["confirmed"] = bool(r["builds_verif"] and "44 passed; 0 failed" in r["tests"] and r["demo_with_patch_exit"] != 0 and rc == 0)
            r["s"] = round(time.time() - t0)
            sh("git checkout -q -- . && git clean -fdq -e target", repo)
        with lock:
            cur = json.load(open(out)) if os.path.exists(out) else {}
            if name in cur and MODE == "detect":
                cur[name].setdefault("checks", {}).update(r.get("checks", {}))
            else:
                cur[name] = r
            json.dump(cur, open(out, "w"), indent=1)
        print(name, "applies" if r["applies"] else "DOES NOT APPLY", "confirmed=" + str(r.get("confirmed")),
              {p: c["exit"] for p, c in r.get("checks", {}).items()}, f"{r.get('s', 0)}s", flush=True)


ts = [threading.Thread(target=worker, args=(i,)) for i in range(nworkers)]
[t.start() for t in ts]
[t.join() for t in ts]
