#!/usr/bin/env python3
"""Assemble DESIGN.md from its hand-written parts and the seeded-change table."""
head = open('/verif/tools/design_head.md').read()
tail = open('/verif/tools/design_tail.md').read()
table = open('/verif/seeded/TABLE.md').read()
open('/verif/DESIGN.md', 'w').write(head + tail.replace('@MUTANT_TABLE@', table))
print(len((head + tail).splitlines()), "lines")
