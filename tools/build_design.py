#!/usr/bin/env python3
"""Assemble DESIGN.md from its hand-written parts and the seeded-change table."""
head = open('/verif/tools/design_head.md').read()
tail = open('/verif/tools/design_tail.md').read()
table = open('/verif/seeded/TABLE.md').read()
import os
btable = open('/verif/benign/TABLE.md').read() if os.path.exists('/verif/benign/TABLE.md') else '(not run yet)'
open('/verif/DESIGN.md', 'w').write(head + tail.replace('@MUTANT_TABLE@', table).replace('@BENIGN_TABLE@', btable))
print(len((head + tail).splitlines()), "lines")
