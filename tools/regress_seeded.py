#!/usr/bin/env python3
"""Regression over the seeded corpus: apply every kept change (seeded/<name>/patch.diff) and run the quick
   checks recorded for it in tools/detection.json; report every (change, check) whose exit code is not the
   recorded one.  Uses tools/try_mutant.py (honours TRY_REPO / TRY_VERIF), which always restores the tree.
   usage: regress_seeded.py [name-prefix ...]   results -> out/regress_seeded.json"""
import json, os, re, subprocess, sys, time
V = os.environ.get("TRY_VERIF", "/verif")
det = json.load(open("/verif/tools/detection.json"))
only = sys.argv[1:]
res_file = os.path.join(V, "out", "regress_seeded.json")
os.makedirs(os.path.dirname(res_file), exist_ok=True)
res = json.load(open(res_file)) if os.path.exists(res_file) else {}
names = sorted(k for k in det if ":" not in k and os.path.isdir(f"/verif/seeded/{k}"))
for name in names:
    if only and not any(name.startswith(p) for p in only):
        continue
    if name in res:
        continue
    patch = f"/verif/seeded/{name}/patch.diff"
    checks = [c for c, e in det[name]]
    t0 = time.time()
    p = subprocess.run(["python3", os.path.join(V, "tools", "try_mutant.py"), patch, "quick"] + checks, stdout=subprocess.PIPE, stderr=subprocess.STDOUT, text=True)
    got = {m.group(1): int(m.group(2)) for m in re.finditer(r"/(C\d\d): exit=(\d+)", p.stdout)}
    bad = {c: (got.get(c), e) for c, e in det[name] if got.get(c) != (1 if e == 1 else 0)}
    res[name] = {"got": got, "expected": dict(det[name]), "mismatch": bad, "s": round(time.time() - t0), "note": "" if got else p.stdout[-300:]}
    json.dump(res, open(res_file, "w"), indent=1)
    print(name, "OK" if not bad else f"MISMATCH {bad}", f"{time.time()-t0:.0f}s", flush=True)
print("done;", sum(1 for r in res.values() if r["mismatch"]), "mismatches of", len(res))
